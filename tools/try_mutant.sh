#!/bin/bash
# usage: try_mutant.sh <seeded-name> <check-id> [tier]
# Runs ./check <id> <tier> against a scratch worktree of /repo with /verif/seeded/<name>/patch.diff applied,
# using a scratch copy of /verif (so /repo and /verif themselves are never modified). Everything is removed afterwards.
name=$1; id=$2; tier=${3:-quick}
S=/tmp/mh/$name-$id-$$
mkdir -p /tmp/mh
git -C /repo worktree add -q --detach $S.repo HEAD || exit 3
if ! git -C $S.repo apply /verif/seeded/$name/patch.diff; then echo "patch failed"; git -C /repo worktree remove --force $S.repo; exit 3; fi
mkdir -p $S.verif
rsync -a --exclude .git --exclude 'harness/.run' --exclude evidence --exclude replays /verif/ $S.verif/
cd $S.verif
VERIF_REPO=$S.repo VERIF_REPLAY_DIR=$S.verif/replays VERIF_EVIDENCE_DIR=$S.verif/evidence ./check $id $tier > $S.log 2>&1; rc=$?
echo "mutant=$name check=$id tier=$tier rc=$rc"; grep -E "^\[check\]|^VIOLATION|^INCONCLUSIVE|^BUILD" $S.log | cut -c1-400 | head -5
cd /; rm -rf $S.verif $S.log; git -C /repo worktree remove --force $S.repo
exit 0
