#!/bin/bash
# usage: try_mutant.sh <seeded-name> <check-id> [tier]   — applies /verif/seeded/<name>/patch.diff to /repo,
# runs ./check <id> <tier>, and always reverts /repo afterwards.
name=$1; id=$2; tier=${3:-quick}
cd /verif
if [ -n "$(git -C /repo status --porcelain)" ]; then echo "/repo not clean"; exit 3; fi
git -C /repo apply /verif/seeded/$name/patch.diff || { echo "patch failed"; exit 3; }
VERIF_REPLAY_DIR=/tmp/try_replays VERIF_EVIDENCE_DIR=/tmp/try_evidence ./check $id $tier > /tmp/try_$name_$id.log 2>&1; rc=$?
git -C /repo checkout -- . 
echo "mutant=$name check=$id tier=$tier rc=$rc"; grep -E "^\[check\]|^VIOLATION|^INCONCLUSIVE" /tmp/try_$name_$id.log | cut -c1-400 | head -5
exit 0
