#!/bin/bash
# usage: sweep_some.sh <tier> <seed> <id...>  — like sweep.sh for the given checks only
tier=$1; seed=$2; shift 2
cd "$(dirname "$0")/.."
for id in "$@"; do
  t0=$(date +%s)
  out=$(VERIF_SEED=$seed VERIF_EVIDENCE_DIR=/tmp/sweep_evidence VERIF_REPLAY_DIR=/tmp/sweep_replays ./check $id $tier 2>&1); rc=$?
  t1=$(date +%s)
  echo "seed=$seed $id rc=$rc $((t1-t0))s $(echo "$out" | grep -E '^(VIOLATION|INCONCLUSIVE)' | head -1 | cut -c1-200)"
done
