#!/bin/bash
# usage: sweep.sh <tier> <seed...>  — runs every check at the given seeds, prints a summary line per run
tier=$1; shift
cd "$(dirname "$0")/.."
for seed in "$@"; do
  for id in $(python3 -c "import json;print(' '.join(c['property_id'] for c in json.load(open('MANIFEST.json'))['checks']))"); do
    t0=$(date +%s)
    out=$(VERIF_SEED=$seed VERIF_EVIDENCE_DIR=/tmp/sweep_evidence VERIF_REPLAY_DIR=/tmp/sweep_replays ./check $id $tier 2>&1); rc=$?
    t1=$(date +%s)
    echo "seed=$seed $id rc=$rc $((t1-t0))s $(echo "$out" | grep -E '^(VIOLATION|INCONCLUSIVE)' | head -1 | cut -c1-200)"
  done
done
