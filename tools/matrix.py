#!/usr/bin/env python3
"""Runs every seeded change against the quick check of its own property (and extra checks given in
tools/matrix_extra.json), records the outcome in seeded/<name>/meta.json (detected_by / missed_by)."""
import json, os, subprocess, sys, glob
os.chdir('/verif')
extra = json.load(open('tools/matrix_extra.json')) if os.path.exists('tools/matrix_extra.json') else {}
names = sorted(os.path.basename(d) for d in glob.glob('seeded/*') if os.path.isdir(d))
only = sys.argv[1:]
rows = []
for n in names:
    if only and n not in only:
        continue
    meta = json.load(open(f'seeded/{n}/meta.json'))
    prop = meta.get('property') or n.split('-')[0]
    checks = [prop] + [c for c in extra.get(n, []) if c != prop]
    det, miss = [], []
    for c in checks:
        out = subprocess.run(['tools/try_mutant.sh', n, c], capture_output=True, text=True).stdout
        rc = None
        for l in out.splitlines():
            if l.startswith('mutant='):
                rc = int(l.split('rc=')[1])
        first = next((l for l in out.splitlines() if l.startswith('[check]')), '')
        (det if rc == 1 else miss).append(dict(check=c, tier='quick', rc=rc, first_report=first[:300]))
        print(n, c, 'rc=', rc, flush=True)
    meta['detected_by'] = det
    meta['missed_by'] = miss
    json.dump(meta, open(f'seeded/{n}/meta.json', 'w'), indent=1)
    rows.append((n, det, miss))
print(json.dumps([(n, [d['check'] for d in det], [m['check'] for m in miss]) for n, det, miss in rows]))
