#!/usr/bin/env python3
"""Confirm a seeded defect delivered by a sub-agent and file it under /verif/seeded/<name>/.

usage: confirm_mutant.py <agent_out_dir> <X> <name>      e.g. /tmp/mut/C01.out A C01-A
Steps (all in a scratch worktree of /repo HEAD, removed afterwards):
  1. demo passes on the clean tree
  2. patch applies; go build ./... ; the 8 offline baseline packages pass
  3. demo fails with the patch
"""
import json, os, shutil, subprocess, sys, re
out, X, name = sys.argv[1], sys.argv[2], sys.argv[3]
env = dict(os.environ, GOFLAGS="-mod=mod", GOPROXY="off", GOSUMDB="off", GOTOOLCHAIN="local")
wt = "/tmp/cm/" + name
shutil.rmtree(wt, ignore_errors=True)
os.makedirs("/tmp/cm", exist_ok=True)
def sh(cmd, cwd=wt, check=False, timeout=900):
    p = subprocess.run(cmd, shell=True, cwd=cwd, env=env, capture_output=True, text=True, timeout=timeout)
    return p.returncode, (p.stdout + p.stderr)
subprocess.run(["git", "-C", "/repo", "worktree", "add", "-q", "--detach", wt, "HEAD"], check=True)
res = dict(name=name, ok=False)
try:
    patch = os.path.join(out, X + ".patch.diff")
    demo = os.path.join(out, X + ".demo")
    meta = json.load(open(os.path.join(out, X + ".meta.json")))
    run = open(os.path.join(demo, "RUN.txt")).read()
    # demo command: take it from meta.demo_cmd, strip cd and env exports
    cmd = meta.get("demo_cmd") or run
    cmd = re.sub(r"cd\s+/tmp/mut\d*/\S+\s*&&\s*", "", cmd)
    cmd = re.sub(r"^\s*(cp|mkdir)\s+[^&]*&&\s*", "", cmd)
    cmd = re.sub(r"^\s*(cp|mkdir)\s+[^&]*&&\s*", "", cmd)
    cmd = re.sub(r"export [^;&]*(;|&&)\s*", "", cmd)
    cmd = re.sub(r"\b(GOFLAGS|GOPROXY|GOSUMDB|GOTOOLCHAIN)=\S+\s*", "", cmd).strip()
    if "go test" not in cmd and "go run" not in cmd:
        m = re.search(r"(go (test|run)[^\n]*)", run)
        cmd = m.group(1) if m else cmd
    res["demo_cmd"] = cmd
    def place(remove=False):
        for root, _, files in os.walk(demo):
            for f in files:
                if f == "RUN.txt":
                    continue
                rel = os.path.relpath(os.path.join(root, f), demo)
                if remove:
                    os.remove(os.path.join(wt, rel))
                    continue
                os.makedirs(os.path.dirname(os.path.join(wt, rel)) or wt, exist_ok=True)
                shutil.copy(os.path.join(root, f), os.path.join(wt, rel))
    place()
    rc, o = sh(cmd)
    res["demo_clean_rc"] = rc
    if rc != 0:
        res["why"] = "demo fails on clean tree: " + o[-800:]
        raise SystemExit
    place(remove=True)
    rc, o = sh("git apply --3way %s || git apply %s" % (patch, patch))
    rc2, o2 = sh("git diff HEAD --stat")
    if not o2.strip():
        res["why"] = "patch does not apply: " + o[-500:]
        raise SystemExit
    rc, o = sh("go build ./...")
    if rc != 0:
        res["why"] = "build fails: " + o[-500:]
        raise SystemExit
    rc, o = sh("go test -vet=off -count=1 ./bint ./eth ./jrpc2 ./shovel/config ./shovel/glf ./wctx ./wos ./wslog")
    res["baseline_rc"] = rc
    if rc != 0:
        res["why"] = "baseline fails: " + o[-800:]
        raise SystemExit
    place()
    rc, o = sh(cmd)
    res["demo_patched_rc"] = rc
    if rc == 0:
        res["why"] = "demo passes with patch"
        raise SystemExit
    res["ok"] = True
    # file it
    dst = "/verif/seeded/" + name
    shutil.rmtree(dst, ignore_errors=True)
    os.makedirs(dst)
    # regenerate the patch against current HEAD
    rc, diff = sh("git diff -- . ':(exclude)zz*' ':(exclude)*zz_demo*' ':(exclude)zzdemo*'")
    p = subprocess.run("git diff HEAD", shell=True, cwd=wt, capture_output=True, text=True)
    open(os.path.join(dst, "patch.diff"), "w").write(p.stdout)
    shutil.copytree(demo, os.path.join(dst, "demo"))
    meta2 = dict(property=meta.get("property"), summary=meta.get("summary"), needs_to_manifest=meta.get("needs_to_manifest"),
                 why_tests_pass=meta.get("why_tests_pass"), demo_cmd=cmd,
                 confirmed=dict(repo_head=subprocess.run(["git","-C","/repo","rev-parse","--short","HEAD"],capture_output=True,text=True).stdout.strip(),
                                ran=["demo on clean tree: pass", "git apply; go build ./...: ok", "go test (8 offline packages): pass", "demo with patch: FAIL"]),
                 detected_by=[])
    json.dump(meta2, open(os.path.join(dst, "meta.json"), "w"), indent=1)
except SystemExit:
    pass
finally:
    subprocess.run(["git", "-C", "/repo", "worktree", "remove", "--force", wt])
print(json.dumps(res))
