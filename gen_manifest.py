#!/usr/bin/env python3
"""Regenerates MANIFEST.json from checks_table.CHECKS + manifest_meta.py (run after editing either)."""
import json, sys
sys.path.insert(0, '.')
from checks_table import CHECKS
from manifest_meta import META, NOT_BUILT_REASON, HOOK_COMMITS

props = [json.loads(l) for l in open('properties.jsonl')]
checks, na = [], []
for p in props:
    pid = p['id']
    if pid in CHECKS and pid in META:
        m = META[pid]
        checks.append(dict(
            property_id=pid,
            quick_cmd="./check %s quick" % pid,
            thorough_cmd="./check %s thorough" % pid,
            evidence_file="/verif/evidence/%s.json" % pid,
            replay_cmd_template="./check %s --replay {path}" % pid,
            engine="rapid-harness",
            level_claimed=dict(category=CHECKS[pid]['level'], text=m['text'], design_ref=m['design_ref']),
            level_note=m['note'],
            technique=m['technique'],
        ))
    else:
        na.append(dict(property_id=pid, reason=NOT_BUILT_REASON.get(pid, "check not built yet in this session; see DESIGN.md §5 for the planned design")))
man = dict(
    version=1,
    setup_cmd="./check --setup",
    hooks=dict(guard="verif", enable="go test -tags verif (the harness module replaces github.com/indexsupply/shovel => /repo)",
               baseline_off_cmd="cd /repo && GOFLAGS=-mod=mod go test -json -vet=off -count=1 ./...",
               source_commits=HOOK_COMMITS, add_only=True),
    engines=[dict(name="rapid-harness", path="/verif/harness", serves_properties=[c['property_id'] for c in checks],
                  kind_free_text="Go module: pgregory.net/rapid v1.3.0 generators/state machines + native go fuzzing, in-process fake Postgres (pgproto3) and simulated JSON-RPC node, independent reference model; driven by /verif/check")],
    checks=checks,
    notes="See DESIGN.md. Exit 0 = held (KNOWN-FINDING lines allowed), 1 = VIOLATION line printed, 2 = inconclusive.",
    not_applicable=na,
)
json.dump(man, open('MANIFEST.json', 'w'), indent=1)
print("claimed:", [c['property_id'] for c in checks], "not claimed:", [n['property_id'] for n in na])
