"""Per-property unit tables used by ./check. kind: rapid | plain | fuzz."""

def R(test, quick, thor, shards=8, **kw):
    d = dict(test=test, kind="rapid", checks=dict(quick=quick, thorough=thor), shards=shards)
    d.update(kw)
    return d

def P(test, shards=1, **kw):
    d = dict(test=test, kind="plain", shards=shards)
    d.update(kw)
    return d

def F(test, thor="60s", **kw):
    d = dict(test=test, kind="fuzz", tiers=("thorough",), fuzztime=dict(thorough=thor, quick="5s"))
    d.update(kw)
    return d

CHECKS = {
    "C17": dict(
        level="exploration",
        rule=("ExhaustiveTokens: every string of length 0..6 over the alphabet \"0xXfgn\\ is given to Uint64/Byte/Bytes.UnmarshalJSON "
              "(non-trivial = well-formed 0x-prefixed JSON string, i.e. the hex decoder itself must accept or reject); "
              "Quantities/LongQuantities: rapid-generated uint64 values x spellings (case, leading zeros, one corrupted digit, >16 digits); "
              "BytesReuse: sequences of 1..8 decodes (valid, odd, non-hex, short tokens) into one destination (non-trivial = a success after a failure or a shorter value after a longer one); "
              "Aliasing: 2..6 destinations filled, refilled (shorter / longer) and written in any order from one message buffer that is reused (and scribbled over) for the next message; model = last value per destination; after every operation every destination equals its model value and the message is unchanged by the decode (non-trivial = a destination grew in place or the buffer was reused); "
              "HexHelpers/Bint: rapid values x prefixes/odd lengths/pad widths 1..32. distinct = distinct canonical case strings (FNV-64)."),
        exhaustive_keys=["ExhaustiveTokens:exhaustive_tokens_len_0_6"],
        assumptions=["strconv.ParseUint, encoding/hex and math/big are the reference codecs",
                     "tokens longer than 6 bytes are sampled, not enumerated"],
        units=[
            P("TestC17_ExhaustiveTokens", shards=4),
            R("TestC17_Quantities", 40000, 2000000),
            R("TestC17_LongQuantities", 20000, 1000000, shards=4),
            R("TestC17_BytesReuse", 8000, 300000),
            R("TestC17_Aliasing", 16000, 400000),
            R("TestC17_HexHelpers", 20000, 1000000, shards=4),
            R("TestC17_Bint", 20000, 1000000, shards=4),
            P("TestC17_EveryByte", shards=9),
            P("TestC17_KnownFindings"),
            F("FuzzC17Token", "60s"),
        ],
    ),
    "C09": dict(
        level="exploration",
        rule=("rapid draws an event declaration (type trees from the C09 grammar: uintN/intN/address/bool/bytesN/bytes/string, T[k] k=1..13, T[], tuples, "
              "arrays of tuples, tuples containing arrays, depth <=3 (Decode) / <=4 (DecodeDeep); selected leaves never in arrays below array-element tuples), renders it to ABI JSON "
              "for shovel's own parser, draws 1..5 value sets, encodes them with the independent encoder and pushes them through ONE decoder instance; rows/cells are compared with the row rule. "
              "non-trivial = dynamic type below an array/tuple, or T[k] with k>=10, or an unselected dynamic input before a selected leaf; distinct = distinct (ABI JSON, #logs, max rows)."),
        assumptions=["the reference encoder/row rule in harness/refmodel/abi.go follows the Solidity ABI spec",
                     "value sizes are bounded (dynamic arrays <=4 elements, bytes <=70) — shape, not size, is what the decoder branches on"],
        units=[
            R("TestC09_Decode", 60000, 3000000),
            R("TestC09_DecodeDeep", 20000, 1000000),
            P("TestC09_KnownFindings"),
            F("FuzzC09", "90s"),
        ],
    ),
    "C10": dict(
        level="exploration",
        rule=("Hostile: rapid draws a declaration (C09 grammar), a valid encoding, then one mutation: boundary value (0,1,31,32,len-32..len+32,2^31,2^32,2^63,2^64-32,2^64-1,2^64,2^255,2^256-1 ...) written over one or two "
              "offset/length words (positions known from the reference encoder), over any word, truncation, random bytes with plausible small words, or trailing garbage; oracle: no panic, error or every cell a sub-slice "
              "of the (cap==len) input, rows <= (#arrays+1)*(len/32+2)^arraydepth, bytes allocated (runtime.MemStats) below a fixed multiple of that, decoder still exact on the next valid log, Integration.Insert does not panic. "
              "AllTruncations: per declaration EVERY prefix of the valid encoding and EVERY boundary word at EVERY offset/length position. non-trivial = the mutated/cut word is one the decoder reads as offset or length."),
        assumptions=["allocation is measured with runtime.ReadMemStats on the test goroutine; no wall-clock criterion is used"],
        units=[
            R("TestC10_Hostile", 80000, 3000000),
            R("TestC10_AllTruncations", 1600, 40000),
            P("TestC10_ZeroFill", shards=14),
            P("TestC10_KnownFindings"),
            F("FuzzC10", "120s"),
        ],
    ),
    "C13": dict(
        level="exploration",
        rule=("Signature: rapid event declarations (tuples, tuple arrays, nested, fixed/dynamic arrays up to depth 4, any indexed layout) -> dig.Event.Signature/SignatureHash vs. reference canonical string and stand-alone Keccak-256; "
              "eth.Keccak vs. the stand-alone Keccak on random bytes; KnownVectors: mainnet topics (Transfer, Approval, ApprovalForAll, Swap, Seaport OrderFulfilled). "
              "Gate: one block of 1..6 logs per case (matching; same hash with 0..4 other topic counts; other hash; similar signature; one-bit-different hash; no topics) through Integration.Insert, rows per log compared with the gate. "
              "Pipeline: generated log declaration (as drawn / selected inputs only inside struct inputs / no log or receipt field in the block list / both) from configuration JSON through validation, request plan and task over a generated chain of matching and decoy logs; table == reference projection. "
              "non-trivial = nested tuple / tuple array in the signature, or a decoy that differs only in the number of topics."),
        assumptions=["indexed inputs are static elementary types (their topic is the value)"],
        units=[
            P("TestC13_KnownVectors"),
            R("TestC13_Signature", 30000, 1000000),
            R("TestC13_Gate", 20000, 600000),
            R("TestC13_SeveralIntegrations", 16000, 400000, shards=8),
            R("TestC13_StoredIntegrations", 4800, 120000, shards=8),
            R("TestC13_Pipeline", 2400, 60000, shards=8),
        ],
    ),
    "C01": dict(
        level="exploration",
        rule=("rapid state machine over growth-only histories: generated configuration (1-2 declarations of log/tx/trace shape with generated event ABI, shuffled columns; start in {head, 1, mid-chain}; batch_size 1..12 x concurrency 1..8 drawn independently), "
              "generated chain contents (0-3 txs/block, 0-3 logs/tx: matching, decoy with other indexed layout, other signature, no topics; 0-2 traces), 2..14 interleaved grow/step actions (GrowthFaults adds transient RPC faults: 503, bad JSON, closed connection, truncated body), then settle. "
              "Oracle: after every successful step and at quiescence table rows of the pair == independent projection of blocks first..position (multiset, column by column); per step: position advances by 1..batch_size contiguous blocks, rows only for those blocks, exactly one cursor row, failed/no-op steps commit nothing; at quiescence position == head. "
              "non-trivial = >=2 successful steps and an indexed block contained a decoy log; distinct = distinct histories."),
        assumptions=["fakepg implements the semantics of the statement shapes shovel emits (read-committed, unique indexes, no lock waits)",
                     "open finding C01/trace-block-empty-result-stalls is removed from the generator by construction (every block has a trace when a trace declaration exists)",
                     "field sets are drawn from the fields the planner tables list (others: C14)"],
        units=[
            R("TestC01_Growth", 6400, 80000, shards=16),
            R("TestC01_GrowthFaults", 3200, 40000, shards=16),
            P("TestC01_KnownFindings"),
        ],
    ),
    "C03": dict(
        level="exploration",
        rule=("rapid state machine with reorgs: 1-3 declarations (log/tx) whose data plan carries parent hashes, on one shared source client; batch_size 1..8 x concurrency 1..4; start in {1, mid, head}; 4..18 actions drawn from grow / step / reorg between steps "
              "(fork depth 1..6 above the oldest retained position, replacement shorter, equal or longer incl. empty) / reorg scheduled INSIDE the next step (on the k-th request, or on the n-th request of kind latest|hash|headers|blocks|logs|receipts) / restart; "
              "then the source settles (chain grown past every recorded height) and every pair is stepped until quiet for #integrations+3 rounds. Oracle at quiescence: position == canonical head with the canonical hash, every retained position canonical, table == projection of the canonical chain; "
              "during the run: no row at or below the largest still-canonical recorded position under a fork is deleted or rewritten. non-trivial = an orphaned block had produced rows AND (reorg deeper than one block OR reorg landed mid-step)."),
        assumptions=["fork points are above the oldest retained position of every pair on the source (a task that starts at the head has no history before its first commit)",
                     "with concurrency > 1 the moment a mid-step reorg lands relative to other partitions is schedule-dependent; the verdict (quiescence equality) is interleaving-independent, reproduction may need the logged history",
                     "fakepg/sim/model as for C01"],
        units=[
            R("TestC03_Reorg", 6400, 60000, shards=16),
            P("TestC03_KnownFindings"),
        ],
    ),
    "C06": dict(
        level="exploration",
        rule=("rapid state machine (growth-only): 1-2 declarations; per (integration, source) start drawn from {0 = head, 1, mid-chain, above the head} and stop from {none, start..start+12}; batch_size 1..8 (so batches straddle the stop), concurrency 1..3; actions grow / step / restart (all connections and in-memory state dropped), then the head is grown past every stop and the pairs are stepped to quiescence. "
              "Oracle per step: rows and positions written lie inside [first block, stop]; completion is reported iff a stop is configured and the recorded position reached it, and nothing is committed afterwards; C01 step invariants; table == projection of first..position (first = start, or the head served at first contact when start is 0); after a restart a recorded position is continued. "
              "At quiescence: position == stop (further step reports completion with no commit) or == head; nothing recorded while start is above the head. non-trivial = a batch would have crossed the stop, or start above the head at first contact, or a resume after restart."),
        assumptions=["fakepg/sim/model as for C01", "outcome values are checked where the head cache cannot blur them (completion, errors, progress); 'nothing new' may be reported while a cached head is still being served"],
        units=[
            R("TestC06_Range", 3200, 80000, shards=16),
            R("TestC06_RangeWithReferences", 1600, 40000, shards=16),
        ],
    ),
    "C05": dict(
        level="exploration",
        rule=("rapid state machine (growth-only) over dependency graphs: 1-2 referenced integrations (transaction- or log-indexing, optionally narrowed by a plain filter) and 1-2 dependants whose filter_ref (contains / !contains, on event inputs or block fields, one or two references, and/or) points at them; dependants may reference dependants (chains); "
              "start/stop per pair; batch 1..6 x concurrency 1..3; 4..20 actions grow/step with the scheduler choosing which pair runs (referenced integrations may not have started). "
              "Oracle: whenever a dependant commits position n, every referenced integration's newest position for the same source is >= n in that committed state and none of them is without a position; at quiescence the dependant sits at min(head, stop, referenced positions) and its rows lie between the projection with lookups against the referenced rows of blocks <= n (guaranteed) and against the whole referenced table (possible). "
              "non-trivial = a dependant was stepped while a referenced integration was strictly behind the head."),
        assumptions=["fakepg/sim/model as for C01", "one reference operator per dependant so that acceptance is monotone in the referenced table contents"],
        units=[
            R("TestC05_Dependencies", 3200, 60000, shards=16),
            R("TestC05_DependenciesReorg", 4800, 40000, shards=16),
        ],
    ),
    "C04": dict(
        level="exploration",
        rule=("Isolation: the C03 reorg state machine over configurations built to share: 1-4 declarations (log/tx) that may share a destination table (same identity columns), the same event with different selections and filters, one or two sources with different chains, all tasks of a source on one client (shared segment/head caches); actions grow / step / reorg (between and inside steps) / restart (with edited batch size) / prune. "
              "Oracle: frame condition on every step — the commit records of a step of pair p add/remove only rows and positions stamped (p.source, p.integration) — and at quiescence every pair separately equals the projection of its source's canonical chain. "
              "non-trivial = >= 2 pairs AND a pair deleted rows (reorg unwind) or everything was restarted. "
              "Concurrent: 1-4 pairs (log/tx/trace, shared table/event/filters, one source client with a 1 ms head poller) each run Converge in its own goroutine (GOMAXPROCS 2/4/8) while the chain grows for 3-8 rounds; afterwards (sequential settle) every pair's table must equal its projection and every recorded position must carry a head (src_num, src_hash) the source announced; non-trivial = >= 2 pairs and rows were written."),
        assumptions=["fakepg/sim/model as for C01/C03", "open finding C16/shared-table-unique-key-first-wins: declarations with different identity columns do not share a table (excluded by construction, counted)"],
        units=[
            R("TestC04_Isolation", 4800, 60000, shards=16),
            R("TestC04_Concurrent", 1600, 24000, shards=16),
        ],
    ),
    "C02": dict(
        level="fault_enumeration",
        rule=("SingleFaults (exhaustive): 12 fixed step scenarios (plain step; first step with configured start; first step at the head; reorg unwinding 1 and 3 positions; reorg with batch 3 (dense and sparse contents); reorg with batch 2 after single-block growth; step with a reference lookup; with notifications; concurrency 3; transaction indexing with receipts). Each is run fault-free once to record the I/O operations of the observed step "
              "(every fakepg operation: begin, each statement, COPY start, COPY end, commit, rollback; every JSON-RPC HTTP request), then re-run from scratch once per (operation x fault kind): database {error reply, connection drop before executing, drop after executing but before the reply, process death before/after}, RPC {503, closed connection, invalid JSON, truncated body, process death}. "
              "Oracle: the Auditor runs inside fakepg's commit hook (every observable state), after the faulted step, and after the restart: for every pair no row lies beyond the recorded position and the rows are exactly those of the blocks first..position in the versions indexed; after the fault clears, retrying reaches the head with table == projection of the canonical chain. "
              "MultiFault: rapid histories (grow / reorg / restart / step with 0-3 random faults at random operation indexes) with the same Auditor. non-trivial = the fault fired at a write (COPY, cursor insert/delete) or at a commit."),
        exhaustive_keys=["SingleFaults:exhaustive_single_faults"],
        assumptions=["fakepg models read-committed transactions, rollback on connection loss and the ambiguous-commit case (commit applied, reply lost); lock waits between concurrent transactions are not modelled",
                     "'process death' = all connections closed and pool, tasks, clients and caches rebuilt from configuration"],
        units=[
            P("TestC02_SingleFaults", shards=12),
            R("TestC02_MultiFault", 3200, 40000, shards=16),
        ],
    ),
    "C14": dict(
        level="exploration",
        rule=("SinglesAndPairs (exhaustive): every field name the row builder understands (28: context, header, block-transaction, receipt, log and trace level), alone and in every pair, without an event declaration (26 fields: all but log_*; trace fields make it trace-indexing) and with one (23 fields: all but trace_*): 627 field sets. "
              "Each set becomes a declaration, goes through ValidateFix/Migrate and is indexed over a 3-block chain in which every field of every block/tx/receipt/log/trace is distinct and non-zero; every stored column must equal the value the node reports for that item (full path JSON-RPC -> client -> row builder -> COPY -> stored value). LargerSets: rapid sets chosen by membership class (whole classes in/out, then members), shuffled. "
              "non-trivial = the set spans >= 2 provenance classes (needs more than one RPC method)."),
        exhaustive_keys=["SinglesAndPairs:exhaustive_singles_and_pairs"],
        assumptions=["field provenance is taken from the JSON-RPC specification (harness/model/project.go), not from shovel's planner tables",
                     "log fields are only meaningful with an event declaration, trace fields only without one"],
        units=[
            P("TestC14_SinglesAndPairs", shards=16),
            R("TestC14_LargerSets", 480, 16000, shards=16),
            R("TestC14_TwoIntegrations", 480, 16000, shards=16),
        ],
    ),
    "C11": dict(
        level="exploration",
        rule=("FullPath: rapid draws a declaration (log-indexing with an event of mixed indexed/non-indexed, selected/unselected inputs in any order incl. unselected indexed inputs before selected ones and all-indexed events whose logs carry no data; or transaction-/trace-indexing) with a random subset of ALL selectable fields in shuffled column order, a 1-3 block chain of generated contents "
              "(integer patterns 0, 1, all-ones, sign bit, max signed, alternating bits, random, for every width 8..256), runs simulated node -> jrpc2 client -> Converge -> COPY -> fake Postgres and compares every stored cell, decoded by its column type, with the model value of that field of that item. "
              "Insert: the row builder alone with a capturing connection, values rendered as pgx would store them (driver.Valuer -> decimal), per selected input and for log_idx/abi_idx/block_num/tx_idx. non-trivial = an unselected input precedes a selected one, or a negative signed value occurs, or >= 6 block-level fields in shuffled order."),
        assumptions=["indexed inputs are static elementary types (the topic is the value)", "documented column types are used (uintN/intN -> numeric, address/bytes/bytesN -> bytea, bool -> bool, string -> text)"],
        units=[
            R("TestC11_FullPath", 6400, 60000, shards=16),
            R("TestC11_Insert", 30000, 1000000, shards=8),
        ],
    ),
    "C12": dict(
        level="exploration",
        rule=("RowBuilder: rapid draws a log-/transaction-/trace-indexing declaration with 1..3 filters over every operator x value kind (bytes/address: contains, !contains, eq, ne with 1-3 args; strings: the same; 64-bit fields and uint256 inputs/fields: eq, ne, gt, lt with the argument at a pivot from {3, 255, 256, 2^64-1, 2^64, 2^128+5, 2^256-2} and chain values planted at pivot-1/pivot/pivot+1), both aggregations and the default, "
              "optional reference filter (contains/!contains against a scripted referenced-table content), passes it through ValidateFix and dig.New, and feeds generated blocks to Integration.Insert; the emitted row multiset must equal the projection under the reference predicate. "
              "Pushdown: log-indexing declarations (mostly with a log_addr filter of any operator) through the full wire path twice: against a node that applies the eth_getLogs address/topics and one that ignores them; both tables must equal the projection (which knows nothing of pushdown) and the filtered run must not lose a row of the unfiltered one. "
              "non-trivial = >= 2 filters (and/or matter), or a negated / 'or'-aggregated log_addr filter."),
        assumptions=["'contains' on byte strings is substring containment (selector matching on tx_input), on strings membership in the argument list; eq/ne/gt/lt on integers use the first argument",
                     "filters are attached to selected inputs / declared block fields only"],
        units=[
            R("TestC12_RowBuilder", 24000, 600000, shards=16),
            R("TestC12_Pushdown", 3200, 40000, shards=16),
            P("TestC12_KnownFindings"),
        ],
    ),
    "C16": dict(
        level="exploration",
        rule=("rapid draws 1-3 integrations (log/transaction/trace shapes, events with arrays and tuple arrays, shuffled columns, notifications), optionally sharing a table (same identity columns), optionally with user-declared identity columns of another integer type, optionally with a pre-existing table that has only some of the columns (and a legacy column). "
              "Checks: (a) the configuration is accepted, and the same configuration with the table column of one selected input / one non-identity block field removed, or a notification column that does not exist, is rejected; (b) ValidateFix + Migrate on the fake Postgres succeed and every column any integration writes exists (union for shared tables); "
              "(c) a generated chain (several logs per tx, multi-row logs, several traces per tx) is indexed through the real path without any COPY error and the table equals the projection (no two different rows collide); (d) after the recorded position is reset, re-indexing the same blocks fails with a unique violation. "
              "non-trivial = a shared table or a pre-existing table with fewer columns."),
        assumptions=["open finding C16/shared-table-unique-key-first-wins: integrations with different identity columns are not put on one table by the generator (counted as excluded); its reproduction runs in TestC16_KnownFindings",
                     "identifiers are lower-case ASCII (unquoted identifiers fold to lower case in Postgres; the fake models that)"],
        units=[
            R("TestC16_Schema", 4800, 40000, shards=16),
            P("TestC16_KnownFindings"),
        ],
    ),
    "C07": dict(
        level="fault_enumeration",
        rule=("Client.Get of an uncached client against the scripted node, for every data plan the planner can produce (h, b, l, l+h, l+b, r, r+h, r+b, t, t+b, r+t+b). SingleOperator (exhaustive): for ranges of limit 1..2 (thorough 1..3), every HTTP request of the call x every operator "
              "{drop / duplicate / swap a batch element, null a result, add an error member, renumber a block, break a parent hash, change a block hash, drop / duplicate / reorder / renumber / re-index an item (log, receipt, trace) inside a result list, HTTP 5xx, invalid JSON, closed connection, body truncated at 1/41/401 bytes} x every position x 4 arguments. "
              "Combined: rapid, 1-3 operators at generated positions, limit 1..6. Oracle, judged against the responses AS SERVED (recorded after mutation, parsed by the harness): error members, null/missing results, short batches, out-of-range or mixed block numbers, wrong numbering or broken links of served blocks, transport failures => an error is mandatory; "
              "otherwise the returned blocks are exactly start..start+limit-1 with the served hashes, hash-linked, and every served log/receipt/trace naming an in-range block and transaction is attached, unchanged, under that block and transaction and nothing else is. No panic. non-trivial = the corrupted response still parsed as JSON (the client's own validation had to decide)."),
        exhaustive_keys=["SingleOperator:exhaustive_single_operator"],
        assumptions=["surplus batch elements beyond the requested ones and reordered receipt batches are allowed to succeed when the returned data is exactly the served data",
                     "two receipts claiming the same (block, transaction) identity are exempt from the completeness clause"],
        units=[
            P("TestC07_SingleOperator", shards=11),
            R("TestC07_Combined", 16000, 400000, shards=16),
            R("TestC07_RetryCached", 8000, 200000, shards=16),
            F("FuzzC07", "90s"),
        ],
    ),
    "C08": dict(
        level="exploration",
        rule=("Sequences: rapid sequences of 2..14 Client.Get calls through ONE caching client against an unchanging chain: 1-3 ranges (so keys recur), ten filters that differ in data plan and in the logs they ask for (none / all / by signature / by address), max reads 1..5, HTTP failures injected into any request of a call. "
              "Oracle: differential against an uncached client on the same chain — same block numbers/hashes/times, same transactions and, restricted to logs matching the caller's own filter, the same logs exactly once (compared on what the caller's plan covers: a shared cached block may carry more); a failed first fetch is not stored; R successful reads of a segment key need >= ceil(R/maxreads) fetches (request counts at the node). "
              "Concurrent: 2..8 goroutines issue such calls at once (transparency only). Head: scripted head announcements (growth, repeats, regressions), with and without the 1 ms poller, failures injected: every (number, hash) returned by Latest was announced by the source; without the poller: Latest(0) always asks, a cached head is never below the caller's floor and serves at most maxreads successive reads. "
              "InFlightReads: the first caller's download is held inside the node, 1..max-reads-1 further callers ask for the same segment meanwhile, the download is released, the remaining reads up to max reads follow and the next read must go to the source (the count does not depend on whether the callers really overlapped). "
              "non-trivial = callers with different filters hit one cached segment, or a failure was injected, or a head regression was announced, or readers arrived during a download."),
        assumptions=["'successive reads' is decided for sequential callers and for at most max-reads-1 callers arriving during one download; more concurrent callers than that are checked for transparency only"],
        units=[
            R("TestC08_Sequences", 3200, 80000, shards=16),
            R("TestC08_Concurrent", 3200, 80000, shards=16),
            R("TestC08_Head", 3200, 80000, shards=16),
            R("TestC08_InFlightReads", 1600, 40000, shards=8),
        ],
    ),
    "C19": dict(
        level="exploration",
        rule=("DecisionTable (exhaustive product, in process on web.Handler.Authn / Login via httptest): {disable_authn} x {enable_loopback_authn} x {configured, generated password} x 15 remote addresses (IPv4/IPv6 loopback incl. IPv4-mapped, private, public, malformed, without port, empty, host name) x 7 cookie states "
              "(none, garbage, empty, other cookie name, minted by this handler, truncated, minted by another handler instance) x 7 HTTP methods x 5 sets of client-controlled address headers (none, X-Forwarded-For loopback / list, X-Real-Ip + Forwarded, X-Forwarded-Host); plus login attempts {right, empty, prefix, longer, trailing NUL, other case, leading space, wrong, 200 bytes} x 2 addresses x {POST, GET, PUT}, and on a handler whose login page was never rendered: 5 wrong POST bodies (empty password, no field, other field, NUL) x 3 addresses as the very first requests. "
              "Oracle: the wrapped handler runs iff authentication is disabled, or the address is loopback and loopback authentication is not enforced, or the cookie was issued by a successful login to this handler; otherwise 3xx to /login and the handler does not run; a session is issued iff the method is POST and the password is right. "
              "Binary: cmd/shovel is built and started against the fake Postgres with enable_loopback_authn; each of the five protected routes (GET and POST) must redirect to /login without a session and must not touch the database, the unprotected routes are served, login works and opens /add-source. non-trivial = the address or the session decides (authentication not disabled)."),
        exhaustive_keys=["DecisionTable:exhaustive_decision_table"],
        assumptions=["expired sessions are not generated (the session library takes the expiry from the wall clock and the key is private to the handler)",
                     "a malformed remote address counts as not loopback"],
        units=[
            P("TestC19_DecisionTable"),
            P("TestC19_SwitchesFromJSON"), P("TestC19_PasswordFromJSON"),
            P("TestC19_ConcurrentLogins"),
            P("TestC19_Binary"),
        ],
    ),
    "C15": dict(
        level="exploration",
        rule=("FileConfig: rapid draws a configuration (two integrations, one referenced; event with a tuple input; filters with arguments; filter_ref on a top-level input, optionally on a block field and on a nested component incl. a user-supplied table; optional unique / index lists and notification columns) and, per configuration, replaces EVERY string-valued position of the JSON tree in turn by a hostile string carrying the marker 'm4rk' "
              "(quote+drop table, double quote, space, $1, semicolon, parenthesis, comma, newline). Each variant goes through ValidateFix; when accepted the whole life cycle runs against the fake Postgres (migrate, tasks, steps over chain data whose strings, inputs and addresses also carry the marker, notifications, reference lookups, a reorg for the delete statements). "
              "Oracle: a variant whose hostile position is one the statement lists (integration/table/column names, column types, unique/index entries, filter_ref table/column anywhere, notification columns, source names) must be rejected; for every variant no SQL text (simple query or Parse) received by the server contains the marker and every statement has a known shape. "
              "Dashboard: the same per-position replacement on the integration posted to /save-integration (and hostile values posted to /save-source): nothing with a hostile listed position may be stored. non-trivial = the variant was accepted, or the position is nested (component / filter_ref / unique / index)."),
        assumptions=["the marker may appear in Bind parameters and COPY data only", "strings made of letters (any script), digits, underscore and hyphen are legal identifiers by the statement and are not used as hostile values"],
        units=[
            R("TestC15_FileConfig", 96, 1600, shards=16),
            R("TestC15_Dashboard", 160, 4800, shards=16),
            R("TestC15_DashboardRun", 1600, 30000, shards=16),
            R("TestC15_Safe", 40000, 2000000, shards=8),
        ],
    ),
    "C20": dict(
        level="exploration",
        rule=("rapid draws 1-3 sources (file, database, or both = clash; batch/concurrency 0..4 incl. unset) and 1-4 integrations placed in the file, in shovel.integrations, or both under the same name with different settings; enabled or disabled; 0..n source references with own start/stop; sometimes a reference to a source that exists nowhere. "
              "The real Manager runs in process against the fake Postgres and simulated nodes; 1-5 actions: store a new integration the way the dashboard does and Restart; Restart while a step of the running generation is held open inside an RPC call by a gate in the node; two Restart calls at once; plain Restart. "
              "Oracle after Run and after every Restart: the task list (hook Manager.VerifTasks: source, chain id, integration, start, stop, batch size, concurrency) equals the model's set (file wins on a name clash, disabled skipped, source settings with defaults), an unknown source reference of an enabled integration makes Run/Restart report an error; Restart never panics or hangs; "
              "it does not return while a step of the previous generation is still held; on the fake's event log no two step-transactions of one (source, integration) pair are ever open at once. non-trivial = a name clash, an unknown source reference, a restart during a step, or concurrent restarts. OverlappingRestarts (directed, repaired finding 3e64aa1): one stored integration without a stop and 150 (thorough 1500) rounds of two Restart calls issued together; every call returns within 10 s and exactly the configured task runs afterwards."),
        assumptions=["'picked up' and 'has stopped' are checked with bounded waits; timings are generated, not exhaustive",
                     "every integration has a stop so that runners end by themselves (the Manager has no stop call)"],
        units=[
            R("TestC20_Manager", 960, 8000, shards=16, timeout=dict(quick=600, thorough=3000)),
            P("TestC20_OverlappingRestarts"),
        ],
    ),
    "C18": dict(
        level="exploration",
        rule=("generated workloads run with real goroutine concurrency under the Go race detector (-race, halt_on_error=0): 1-4 declarations (log/tx/trace, same event with different selections, filters) = 1-4 tasks on one source client, concurrency 2..8 with batch >= concurrency, the 1 ms background head poller running, "
              "every task looping on Converge in its own goroutine while the chain grows and reorgs land (3-8 rounds of pre-generated growth / depth 1-3 reorgs), GOMAXPROCS drawn from {2,4,8,16}. ../check parses the detector's reports: two conflicting accesses whose top frames are both in shovel packages = violation (identified by that pair of functions); a harness frame on top = harness bug = inconclusive. "
              "non-trivial = more than one task on the client or concurrency > 1 (always, by construction); distinct = distinct (configuration, rounds, GOMAXPROCS)."),
        assumptions=["happens-before race detection only sees executed accesses: absence of a report is not absence of a race",
                     "workloads are schedule-dependent; rapid cannot shrink or replay a race, the report itself is the reproduction"],
        units=[
            dict(test="TestC18_Races", kind="rapid", checks=dict(quick=640, thorough=6000), shards=16, race=True, timeout=dict(quick=900, thorough=3000)),
        ],
    ),
}
