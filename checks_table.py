"""Per-property unit tables used by ./check. kind: rapid | plain | fuzz."""

def R(test, quick, thor, shards=8, **kw):
    d = dict(test=test, kind="rapid", checks=dict(quick=quick, thorough=thor), shards=shards)
    d.update(kw)
    return d

def P(test, shards=1, **kw):
    d = dict(test=test, kind="plain", shards=shards)
    d.update(kw)
    return d

def F(test, thor="60s", **kw):
    d = dict(test=test, kind="fuzz", tiers=("thorough",), fuzztime=dict(thorough=thor, quick="5s"))
    d.update(kw)
    return d

CHECKS = {
    "C17": dict(
        level="exploration",
        rule=("ExhaustiveTokens: every string of length 0..6 over the alphabet \"0xXfgn\\ is given to Uint64/Byte/Bytes.UnmarshalJSON "
              "(non-trivial = well-formed 0x-prefixed JSON string, i.e. the hex decoder itself must accept or reject); "
              "Quantities/LongQuantities: rapid-generated uint64 values x spellings (case, leading zeros, one corrupted digit, >16 digits); "
              "BytesReuse: sequences of 1..8 decodes (valid, odd, non-hex, short tokens) into one destination (non-trivial = a success after a failure or a shorter value after a longer one); "
              "HexHelpers/Bint: rapid values x prefixes/odd lengths/pad widths 1..32. distinct = distinct canonical case strings (FNV-64)."),
        exhaustive_keys=["ExhaustiveTokens:exhaustive_tokens_len_0_6"],
        assumptions=["strconv.ParseUint, encoding/hex and math/big are the reference codecs",
                     "tokens longer than 6 bytes are sampled, not enumerated"],
        units=[
            P("TestC17_ExhaustiveTokens", shards=4),
            R("TestC17_Quantities", 40000, 2000000),
            R("TestC17_LongQuantities", 20000, 1000000, shards=4),
            R("TestC17_BytesReuse", 8000, 300000),
            R("TestC17_HexHelpers", 20000, 1000000, shards=4),
            R("TestC17_Bint", 20000, 1000000, shards=4),
            P("TestC17_KnownFindings"),
            F("FuzzC17Token", "60s"),
        ],
    ),
}
