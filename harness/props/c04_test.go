package props

// C04 — tasks are isolated: one task never alters another task's rows or position.

import (
	"fmt"
	"runtime"
	"sync"
	"sync/atomic"
	"testing"
	"time"

	"github.com/indexsupply/shovel/jrpc2"
	"pgregory.net/rapid"

	"verifharness/evid"
	"verifharness/gen"
	"verifharness/sim"
)

func TestC04_Isolation(t *testing.T) {
	ev := evid.For("C04", "Isolation")
	rapid.Check(t, func(rt *rapid.T) {
		reorgProperty(rt, ev, machineOpts{MaxDecls: 4, Kinds: []string{"log", "tx", "log", "tx", "trace"}, MaxBatch: 6, MaxConc: 3, InitBlocks: [2]int{3, 8},
			ShareTable: true, TwoSources: true, SameEvent: true, Filters: true}, "C04")
	})
}

// c04Concurrent: the pairs run truly concurrently (one goroutine each, as the
// manager runs them) against a growing chain, sharing the source client, its
// segment and head caches and possibly a table. Oracle: afterwards every pair's
// table is exactly the projection of the chain (nothing lost to, or taken from,
// a neighbour) and every recorded position carries a head (src_num, src_hash)
// that the source announced.
func c04Concurrent(rt *rapid.T, ev *evid.Rec) {
	o := machineOpts{MaxDecls: 4, Kinds: []string{"log", "tx", "trace"}, MaxBatch: 6, MaxConc: 4, InitBlocks: [2]int{4, 10}, Starts: []string{"one", "mid"},
		NeedParent: true, SameEvent: true, Filters: true, ShareTable: true, TwoSources: true}
	m := newMachine(rt, o)
	defer m.Close()
	w := m.w
	fail := func(f string, a ...any) {
		rt.Fatalf("VERIF-VIOLATION property=C04 %s\n history:\n   %s", fmt.Sprintf(f, a...), m.History())
	}
	for _, s := range w.Sources {
		// the background head poller is part of the pipeline
		s.client = jrpc2.New(s.urls()...).WithPollDuration(time.Millisecond).WithMaxReads(max(1, len(m.decls)))
	}
	if err := w.rebuildTasksWithClients(); err != nil {
		rt.Fatalf("VERIF-INCONCLUSIVE rebuild: %v", err)
	}
	procs := rapid.SampledFrom([]int{2, 4, 8}).Draw(rt, "gomaxprocs")
	old := runtime.GOMAXPROCS(procs)
	rounds := rapid.IntRange(3, 8).Draw(rt, "rounds")
	var grows [][][]sim.Tx
	for i := 0; i < rounds; i++ {
		var g [][]sim.Tx
		for j := rapid.IntRange(1, 4).Draw(rt, "grow"); j > 0; j-- {
			g = append(g, gen.GenTxs(rt, m.copts))
		}
		grows = append(grows, g)
	}
	var wg sync.WaitGroup
	stop := make(chan struct{})
	var panicked atomic.Value
	for _, p := range w.Pairs {
		wg.Add(1)
		go func(p *Pair) {
			defer wg.Done()
			for {
				select {
				case <-stop:
					return
				default:
				}
				if v := catch(func() { p.task.Converge() }); v != nil {
					panicked.Store(fmt.Sprintf("%s: %v", p.Key(), v))
				}
				runtime.Gosched()
			}
		}(p)
	}
	s := w.Sources[0]
	for gi, g := range grows {
		time.Sleep(time.Duration(1+len(g)) * time.Millisecond)
		// both sources grow (the same contents: one integration on two sources decodes look-alike logs)
		for si, sx := range w.Sources {
			if si > 0 && gi%2 == 1 {
				continue
			}
			sx.Node.Lock()
			for _, txs := range g {
				sx.Node.Chain.Append(cloneTxs(txs))
			}
			sx.Node.Unlock()
		}
	}
	time.Sleep(10 * time.Millisecond)
	close(stop)
	wg.Wait()
	runtime.GOMAXPROCS(old)
	m.logf("%d pairs ran concurrently over %d growth rounds to head %d (GOMAXPROCS %d)", len(w.Pairs), rounds, s.Node.Chain.Head().Num, procs)
	if v := panicked.Load(); v != nil {
		fail("Converge panicked: %v", v)
	}
	if msg := m.settle(len(m.decls)+3, nil); msg != "" {
		if len(msg) > 12 && msg[:12] == "INCONCLUSIVE" {
			rt.Fatalf("VERIF-INCONCLUSIVE %s", msg)
		}
		fail("%s", msg)
	}
	rowsTotal := 0
	for _, p := range w.Pairs {
		// (the concurrent phase bypassed World.Step: every pair has a configured start)
		p.First, p.FirstSet = p.Start, true
		if v := w.CheckPair(p); v != "" {
			fail("after the concurrent phase: %s", v)
		}
		rowsTotal += len(pairRows(w.db.Rows(p.Decl.Table), p.Src.Name, p.Decl.Name))
	}
	for _, r := range w.db.Rows("shovel.task_updates") {
		sh, _ := r["src_hash"].([]byte)
		sn := numOf(r["src_num"])
		if len(sh) == 0 {
			continue
		}
		var b *sim.Block
		for _, sx := range w.Sources {
			if r["src_name"] == sx.Name {
				b = sx.Node.Chain.At(sn)
			}
		}
		if b == nil || string(b.Hash) != string(sh) {
			fail("position %v of %v/%v records the head (%d, %x): the source never announced that pair (block %d has hash %x)", r["num"], r["src_name"], r["ig_name"], sn, sh, sn, func() []byte {
				if b == nil {
					return nil
				}
				return b.Hash
			}())
		}
	}
	cnt := s.Node.Counts()
	ev.Case(len(w.Pairs) > 1 && rowsTotal > 0, m.describeConfig()+fmt.Sprint(rounds, procs), fmt.Sprintf("pairs=%d", len(w.Pairs)), fmt.Sprintf("gomaxprocs=%d", procs), fmt.Sprintf("rows>0=%v", rowsTotal > 0))
	if ev.WantSample(3) {
		ev.Sample(3, map[string]any{"config": m.describeConfig(), "rounds": rounds, "gomaxprocs": procs, "rpc_counts": cnt, "rows": rowsTotal})
	}
}

func TestC04_Concurrent(t *testing.T) {
	ev := evid.For("C04", "Concurrent")
	rapid.Check(t, func(rt *rapid.T) { c04Concurrent(rt, ev) })
}
