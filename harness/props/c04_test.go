package props

// C04 — tasks are isolated: one task never alters another task's rows or position.

import (
	"testing"

	"pgregory.net/rapid"

	"verifharness/evid"
)

func TestC04_Isolation(t *testing.T) {
	ev := evid.For("C04", "Isolation")
	rapid.Check(t, func(rt *rapid.T) {
		reorgProperty(rt, ev, machineOpts{MaxDecls: 4, Kinds: []string{"log", "tx"}, MaxBatch: 6, MaxConc: 3, InitBlocks: [2]int{3, 8},
			ShareTable: true, TwoSources: true, SameEvent: true, Filters: true}, "C04")
	})
}
