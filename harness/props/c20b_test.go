package props

// C20 — directed history for the repaired finding C20/overlapping-restarts-earlier-call-hangs.

import (
	"context"
	"encoding/json"
	"fmt"
	"sync"
	"testing"
	"time"

	"github.com/indexsupply/shovel/shovel"
	"github.com/indexsupply/shovel/shovel/config"
	"github.com/jackc/pgx/v5/pgxpool"

	"verifharness/evid"
	"verifharness/refmodel"
	"verifharness/sim"
)

// TestC20_OverlappingRestarts: one stored integration without a stop (its runner never ends by
// itself, as in production) and pairs of Restart calls issued at the same time, many times over.
// Every call returns, and afterwards exactly the configured task runs.
func TestC20_OverlappingRestarts(t *testing.T) {
	ev := evid.For("C20", "OverlappingRestarts")
	pg, ns := env()
	dbName := fmt.Sprintf("mgrb%d", dbSeq.Add(1))
	db := pg.NewDB(dbName)
	db.ApplyShovelSchema()
	defer pg.DropDB(dbName)
	pool, err := pgxpool.New(context.Background(), pg.URL(dbName))
	if err != nil {
		t.Fatalf("VERIF-INCONCLUSIVE pool: %v", err)
	}
	node := sim.NewNode(sim.NewChain())
	for b := 0; b < 4; b++ {
		node.Chain.Append(plainTx(b))
	}
	url := ns.Attach(node, "")
	defer ns.Detach(url)
	raw, _ := json.Marshal(map[string]any{"pg_url": pg.URL(dbName), "eth_sources": []any{map[string]any{"name": "src1", "chain_id": 10, "url": url, "batch_size": 1, "concurrency": 1, "poll_duration": "20ms"}}, "integrations": []any{}})
	var conf config.Root
	if err := json.Unmarshal(raw, &conf); err != nil {
		t.Fatalf("VERIF-INCONCLUSIVE config: %v", err)
	}
	ig := c20Ig{name: "forever", enabled: true, where: "db", srcs: []refmodel.SourceRef{{Name: "src1", Start: 1, Stop: 0}}}
	one := config.Root{}
	b, _ := json.Marshal(map[string]any{"integrations": []any{ig.decl().JSON()}})
	json.Unmarshal(b, &one)
	if err := config.ValidateFix(&one); err != nil {
		t.Fatalf("VERIF-INCONCLUSIVE ValidateFix: %v", err)
	}
	if err := config.Migrate(context.Background(), pool, one); err != nil {
		t.Fatalf("VERIF-INCONCLUSIVE Migrate: %v", err)
	}
	cj, _ := json.Marshal(one.Integrations[0])
	if _, err := pool.Exec(context.Background(), `insert into shovel.integrations(name, conf) values ($1, $2)`, ig.name, cj); err != nil {
		t.Fatalf("VERIF-INCONCLUSIVE storing integration: %v", err)
	}
	mgr := shovel.NewManager(context.Background(), pool, conf)
	ec := make(chan error)
	go mgr.Run(ec)
	if err := <-ec; err != nil {
		t.Fatalf("VERIF-VIOLATION property=C20 Run: %v", err)
	}
	rounds := scale(150, 1500)
	for r := 0; r < rounds; r++ {
		var e1, e2 error
		var p1, p2 any
		var wg sync.WaitGroup
		wg.Add(2)
		go func() { defer wg.Done(); p1 = catch(func() { e1 = mgr.Restart() }) }()
		go func() { defer wg.Done(); p2 = catch(func() { e2 = mgr.Restart() }) }()
		done := make(chan struct{})
		go func() { wg.Wait(); close(done) }()
		select {
		case <-done:
		case <-time.After(10 * time.Second):
			// (the pool is left to the process: closing it would wait for the runner that is stuck)
			t.Fatalf("VERIF-VIOLATION property=C20 round %d: two Restart calls issued together did not both return within 10 s (one stored integration without a stop)", r)
		}
		if p1 != nil || p2 != nil || e1 != nil || e2 != nil {
			t.Fatalf("VERIF-VIOLATION property=C20 round %d: concurrent Restart: panics %v %v errors %v %v", r, p1, p2, e1, e2)
		}
		ev.Case(true, fmt.Sprint("round", r), "overlapping-restarts")
		if got := c20Observed(mgr); len(got) != 1 {
			t.Fatalf("VERIF-VIOLATION property=C20 round %d: after two overlapping restarts the running tasks are %v, configured: src1/forever", r, got)
		}
	}
	ev.Sample(1, map[string]any{"rounds": rounds, "integration": "forever (no stop)", "restarts_per_round": 2})
	// the operator removes the integration so that the last generation ends and the pool can close
	db.DeleteRows("shovel.integrations", func(v map[string]any) bool { return v["name"] == "forever" })
	fin := make(chan struct{})
	go func() { catch(func() { mgr.Restart() }); close(fin) }()
	select {
	case <-fin:
	case <-time.After(10 * time.Second):
		t.Fatalf("VERIF-VIOLATION property=C20 the final Restart did not return within 10 s")
	}
	closed := make(chan struct{})
	go func() { pool.Close(); close(closed) }()
	select {
	case <-closed:
	case <-time.After(5 * time.Second):
	}
}
