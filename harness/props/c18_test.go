package props

// C18 — the concurrent indexing pipeline is free of data races.
// The oracle is the Go race detector: this file only generates workloads with
// real goroutine concurrency; ../check parses the detector's reports.

import (
	"fmt"
	"runtime"
	"sync"
	"testing"
	"time"

	"github.com/indexsupply/shovel/jrpc2"
	"pgregory.net/rapid"

	"verifharness/evid"
	"verifharness/gen"
	"verifharness/sim"
)

func c18Workload(rt *rapid.T, ev *evid.Rec) {
	o := machineOpts{MaxDecls: 4, Kinds: []string{"log", "tx", "trace"}, MaxBatch: 8, MaxConc: 8, InitBlocks: [2]int{4, 10}, Starts: []string{"one", "mid"}, NeedParent: true, SameEvent: true, Filters: true, TwoSources: true}
	m := newMachine(rt, o)
	defer m.Close()
	w := m.w
	// make sure at least one task partitions its loads
	for _, s := range w.Sources {
		if s.Conc < 2 {
			s.Conc = rapid.IntRange(2, 8).Draw(rt, "conc2")
		}
		if s.Batch < s.Conc {
			s.Batch = s.Conc + rapid.IntRange(0, 4).Draw(rt, "batch2")
		}
	}
	if err := w.Restart(); err != nil {
		rt.Fatalf("VERIF-INCONCLUSIVE restart: %v", err)
	}
	// the background head poller is part of the pipeline: 1 ms
	deadWS := false
	for _, s := range w.Sources {
		s.client = jrpc2.New(s.urls()...).WithPollDuration(time.Millisecond).WithMaxReads(len(m.decls))
		if rapid.IntRange(0, 3).Draw(rt, "deadws") == 0 {
			// a configured websocket endpoint that refuses connections: the listener fails and is started again
			s.client = s.client.WithWSURL("ws://127.0.0.1:1/")
			deadWS = true
		}
	}
	if err := w.rebuildTasksWithClients(); err != nil {
		rt.Fatalf("VERIF-INCONCLUSIVE rebuild: %v", err)
	}
	procs := rapid.SampledFrom([]int{2, 4, 8, 16}).Draw(rt, "gomaxprocs")
	old := runtime.GOMAXPROCS(procs)
	defer runtime.GOMAXPROCS(old)
	rounds := rapid.IntRange(3, 8).Draw(rt, "rounds")
	// pre-generate chain mutations (rapid.T is not safe for concurrent use)
	type mut struct {
		grow  [][]sim.Tx
		reorg bool
		depth int
	}
	var muts []mut
	for i := 0; i < rounds; i++ {
		mu := mut{reorg: rapid.IntRange(0, 3).Draw(rt, "reorg") == 0, depth: rapid.IntRange(1, 3).Draw(rt, "depth")}
		for j := rapid.IntRange(1, 4).Draw(rt, "grow"); j > 0; j-- {
			mu.grow = append(mu.grow, gen.GenTxs(rt, m.copts))
		}
		muts = append(muts, mu)
	}
	overlapped := 0
	var wg sync.WaitGroup
	stop := make(chan struct{})
	for _, p := range w.Pairs {
		wg.Add(1)
		go func(p *Pair) {
			defer wg.Done()
			for {
				select {
				case <-stop:
					return
				default:
				}
				catch(func() { p.task.Converge() })
				runtime.Gosched()
			}
		}(p)
	}
	for _, mu := range muts {
		time.Sleep(time.Duration(2+len(mu.grow)) * time.Millisecond)
		for _, s := range w.Sources {
			s.Node.Lock()
			head := s.Node.Chain.Head().Num
			var contents [][]sim.Tx
			for _, txs := range mu.grow {
				contents = append(contents, cloneTxs(txs))
			}
			if mu.reorg && head > uint64(mu.depth)+2 {
				s.Node.Chain.Reorg(head-uint64(mu.depth)+1, contents)
			} else {
				for _, txs := range contents {
					s.Node.Chain.Append(txs)
				}
			}
			s.Node.Unlock()
		}
	}
	time.Sleep(15 * time.Millisecond)
	close(stop)
	wg.Wait()
	cnt := w.Sources[0].Node.Counts()
	overlapped = cnt["http:blocks"] + cnt["http:headers"]
	ev.Case(len(w.Pairs) > 1 || w.Sources[0].Conc > 1, m.describeConfig()+fmt.Sprint(rounds, procs), fmt.Sprintf("pairs=%d", len(w.Pairs)), fmt.Sprintf("conc=%d", w.Sources[0].Conc), fmt.Sprintf("gomaxprocs=%d", procs), fmt.Sprintf("segmentFetches>10=%v", overlapped > 10), fmt.Sprintf("deadWebsocket=%v", deadWS))
	if ev.WantSample(3) {
		ev.Sample(3, map[string]any{"config": m.describeConfig(), "rounds": rounds, "gomaxprocs": procs, "rpc_counts": cnt})
	}
}

func TestC18_Races(t *testing.T) {
	ev := evid.For("C18", "Races")
	rapid.Check(t, func(rt *rapid.T) { c18Workload(rt, ev) })
}
