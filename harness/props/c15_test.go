package props

// C15 — no configuration string reaches SQL text unless it passed the identifier check.

import (
	"bytes"
	"context"
	"encoding/json"
	"fmt"
	"math/big"
	"net/http"
	"net/http/httptest"
	neturl "net/url"
	"sort"
	"strings"
	"testing"
	"time"
	"unicode"
	"unicode/utf8"

	"github.com/indexsupply/shovel/jrpc2"
	"github.com/indexsupply/shovel/shovel"
	"github.com/indexsupply/shovel/shovel/config"
	"github.com/indexsupply/shovel/shovel/web"
	"github.com/indexsupply/shovel/wctx"
	"github.com/indexsupply/shovel/wstrings"
	"github.com/jackc/pgx/v5/pgxpool"
	"pgregory.net/rapid"

	"verifharness/evid"
	"verifharness/fakepg"
	"verifharness/refmodel"
	"verifharness/sim"
)

const c15Marker = "m4rk"

var c15Hostile = []string{
	c15Marker + "'); drop table x; --",
	c15Marker + `" or ""="`,
	c15Marker + " x",
	c15Marker + "$1",
	c15Marker + ";select 1",
	c15Marker + ")",
	c15Marker + ",y",
	c15Marker + "\n",
	// every metacharacter directly after a non-ASCII letter
	c15Marker + "é;",
	c15Marker + "é)é;dropé tableé xé;",
	"世" + c15Marker + "世'",
	// shapes that an index / unique entry may legally have, with a tail
	"f desc ); drop table " + c15Marker + "; --",
	"f asc " + c15Marker,
	"f  desc\t" + c15Marker + ")",
}

// c15Config builds a configuration tree (as JSON values) that exercises every
// kind of string position: names, types, unique/index lists, notification
// columns, filter refs on top-level inputs, on block fields and on nested
// components, two integrations (one referenced).
func c15Config(rt *rapid.T, url string) map[string]any {
	ref := map[string]any{
		"name": "refig", "enabled": true, "sources": []any{map[string]any{"name": "src1", "start": 1}},
		"table": map[string]any{"name": "reft", "columns": []any{map[string]any{"name": "addr", "type": "bytea"}, map[string]any{"name": "tx_hash", "type": "bytea"}}},
		"block": []any{map[string]any{"name": "tx_signer", "column": "addr"}, map[string]any{"name": "tx_hash", "column": "tx_hash"}},
	}
	nested := map[string]any{"name": "inner", "type": "address", "column": "inner_a"}
	if rapid.Bool().Draw(rt, "nestedref") {
		nested["filter_op"] = "contains"
		nested["filter_ref"] = map[string]any{"integration": "refig", "column": "addr", "table": "reft"}
	}
	inputs := []any{
		map[string]any{"indexed": true, "name": "from", "type": "address", "column": "f", "filter_op": "contains", "filter_ref": map[string]any{"integration": "refig", "column": "addr"}},
		map[string]any{"indexed": false, "name": "memo", "type": "string", "column": "memo", "filter_op": "!contains", "filter_arg": []any{"spam"}},
		map[string]any{"indexed": false, "name": "t", "type": "tuple", "components": []any{nested, map[string]any{"name": "amt", "type": "uint256", "column": "amt"}}},
	}
	odd := rapid.IntRange(0, 3).Draw(rt, "oddcomponents") == 0
	if odd {
		// components under an input that is not declared as a tuple: dig builds its
		// decoder and its filter list from the components whatever the declared type says
		inputs = append(inputs, map[string]any{"indexed": false, "name": "odd", "type": "address", "components": []any{
			map[string]any{"name": "oddinner", "type": "address", "column": "odd_a", "filter_op": "contains", "filter_ref": map[string]any{"integration": "refig", "column": "addr", "table": "reft"}}}})
	}
	table := map[string]any{"name": "maint", "columns": []any{
		map[string]any{"name": "odd_a", "type": "bytea"},
		map[string]any{"name": "f", "type": "bytea"}, map[string]any{"name": "memo", "type": "text"}, map[string]any{"name": "inner_a", "type": "bytea"},
		map[string]any{"name": "amt", "type": "numeric"}, map[string]any{"name": "log_addr", "type": "bytea"}, map[string]any{"name": "tx_to", "type": "bytea"}, map[string]any{"name": "block_time", "type": "numeric"}}}
	if rapid.Bool().Draw(rt, "uniq") {
		table["unique"] = []any{[]any{"ig_name", "src_name", "block_num", "tx_idx", "log_idx", "abi_idx"}}
		if rapid.Bool().Draw(rt, "disableunique") {
			// shovel adds no key of its own; the listed one is still created
			table["disable_unique"] = true
		}
	}
	if rapid.Bool().Draw(rt, "index") {
		table["index"] = []any{[]any{"f"}, []any{"memo", "amt"}}
	}
	block := []any{
		map[string]any{"name": "log_addr", "column": "log_addr", "filter_op": "contains", "filter_arg": []any{"0x" + strings.Repeat("77", 20)}},
		map[string]any{"name": "tx_to", "column": "tx_to"},
		map[string]any{"name": "block_time", "column": "block_time"},
	}
	if rapid.Bool().Draw(rt, "requiredfields") {
		// fields shovel would add by itself, listed by the user (under the standard column names)
		for _, f := range []string{"block_num", "ig_name", "log_idx"} {
			if rapid.Bool().Draw(rt, "req:"+f) {
				block = append(block, map[string]any{"name": f, "column": f})
			}
		}
	}
	if rapid.Bool().Draw(rt, "blockref") {
		block[1].(map[string]any)["filter_op"] = "contains"
		block[1].(map[string]any)["filter_ref"] = map[string]any{"integration": "refig", "column": "addr"}
	}
	main := map[string]any{
		"name": "mainig", "enabled": rapid.IntRange(0, 3).Draw(rt, "enabled") != 0, "sources": []any{map[string]any{"name": "src1", "start": 1}},
		"table": table, "filter_agg": "or", "block": block,
		"event": map[string]any{"name": "Note", "type": "event", "anonymous": false, "inputs": inputs},
	}
	if rapid.Bool().Draw(rt, "notify") {
		main["notification"] = map[string]any{"columns": []any{"memo", "amt"}}
	}
	igs := []any{ref, main}
	if rapid.Bool().Draw(rt, "sharedtable") {
		// a later integration writes to the same table and declares some of the same columns:
		// mainig is then not the last word on the table's definition
		late := map[string]any{
			"name": "lateig", "enabled": true, "sources": []any{map[string]any{"name": "src1", "start": 1}},
			"table": map[string]any{"name": "maint", "columns": []any{
				map[string]any{"name": "tx_to", "type": "bytea"}, map[string]any{"name": "block_time", "type": "numeric"}, map[string]any{"name": "log_addr", "type": "bytea"}},
				"index": []any{[]any{"tx_to"}}},
			"block": []any{map[string]any{"name": "tx_to", "column": "tx_to"}, map[string]any{"name": "block_time", "column": "block_time"}},
		}
		igs = append(igs, late)
	}
	if rapid.IntRange(0, 2).Draw(rt, "bareig") == 0 {
		// an integration whose table declares no column at all (shovel adds the identity columns):
		// its table name, unique and index entries are spliced like any other
		bare := map[string]any{
			"name": "bareig", "enabled": true, "sources": []any{map[string]any{"name": "src1", "start": 1}},
			"table": map[string]any{"name": "baret", "index": []any{[]any{"block_num"}}, "unique": []any{[]any{"ig_name", "src_name", "block_num", "tx_idx"}}},
		}
		switch rapid.IntRange(0, 2).Draw(rt, "barecols") {
		case 0:
			bare["table"].(map[string]any)["columns"] = []any{}
		case 1:
			bare["table"].(map[string]any)["columns"] = nil
		}
		igs = append(igs, bare)
	}
	return map[string]any{
		"pg_url": "postgres://x", "dashboard": map[string]any{"root_password": "pw"},
		"eth_sources":  []any{map[string]any{"name": "src1", "chain_id": 7, "url": url, "batch_size": 2, "concurrency": 1, "poll_duration": "1h"}},
		"integrations": igs,
	}
}

type jsonPos struct {
	path   string
	set    func(v string)
	get    string
	listed bool // a position the statement lists as spliced into SQL text
}

// stringPositions enumerates every string-valued leaf of the tree.
func stringPositions(root any) []jsonPos {
	var out []jsonPos
	var walk func(v any, path string, set func(any))
	walk = func(v any, path string, set func(any)) {
		switch x := v.(type) {
		case map[string]any:
			keys := make([]string, 0, len(x))
			for k := range x {
				keys = append(keys, k)
			}
			sort.Strings(keys)
			for _, k := range keys {
				k := k
				walk(x[k], path+"."+k, func(nv any) { x[k] = nv })
			}
		case []any:
			for i := range x {
				i := i
				walk(x[i], fmt.Sprintf("%s[%d]", path, i), func(nv any) { x[i] = nv })
			}
		case string:
			out = append(out, jsonPos{path: path, get: x, set: func(s string) { set(s) }})
		}
	}
	walk(root, "", nil)
	for i := range out {
		out[i].listed = c15Listed(out[i].path)
	}
	return out
}

// c15Listed: positions the statement says are restricted by validation because
// they are spliced into SQL text.
func c15Listed(path string) bool {
	p := path
	switch {
	case strings.HasPrefix(p, ".eth_sources[") && strings.HasSuffix(p, ".name"):
		return true // notification channel '<source>-<integration>', application name
	case !strings.HasPrefix(p, ".integrations["):
		return false
	}
	tail := p[strings.Index(p, "]")+1:]
	switch {
	case tail == ".name", tail == ".table.name":
		return true
	case strings.HasPrefix(tail, ".table.columns[") && (strings.HasSuffix(tail, ".name") || strings.HasSuffix(tail, ".type")):
		return true
	case strings.HasPrefix(tail, ".table.unique["), strings.HasPrefix(tail, ".table.index["):
		return true
	case strings.HasPrefix(tail, ".notification.columns["):
		return true
	case strings.HasSuffix(tail, ".filter_ref.table"), strings.HasSuffix(tail, ".filter_ref.column"):
		return true
	}
	return false
}

// c15StripRefIntegration removes the integration name from every filter_ref of the
// tree and makes sure each still names a table and a column.
func c15StripRefIntegration(v any) {
	switch x := v.(type) {
	case map[string]any:
		if ref, ok := x["filter_ref"].(map[string]any); ok {
			delete(ref, "integration")
			if _, ok := ref["table"]; !ok {
				ref["table"] = "reft"
			}
			if _, ok := ref["column"]; !ok {
				ref["column"] = "addr"
			}
		}
		for _, c := range x {
			c15StripRefIntegration(c)
		}
	case []any:
		for _, c := range x {
			c15StripRefIntegration(c)
		}
	}
}

func deepCopy(v map[string]any) map[string]any {
	b, _ := json.Marshal(v)
	var out map[string]any
	json.Unmarshal(b, &out)
	return out
}

// c15Chain: chain data that carries the marker in every chain-derived value.
func c15Chain() *sim.Chain {
	c := sim.NewChain()
	ev := &refmodel.Event{Name: "Note", Inputs: []*refmodel.Type{
		{Kind: refmodel.KAddress, Name: "from", Indexed: true},
		{Kind: refmodel.KString, Name: "memo"},
		{Kind: refmodel.KTuple, Name: "t", Fields: []*refmodel.Type{{Kind: refmodel.KAddress, Name: "inner"}, {Kind: refmodel.KUint, Bits: 256, Name: "amt"}}}}}
	w := func(b []byte) []byte { x := make([]byte, 32); copy(x[32-len(b):], b); return x }
	evil := []byte(c15Marker + "'); drop table x; --")
	for i := 1; i <= 4; i++ {
		from := addrN(byte(i))
		vals := []refmodel.Value{{T: ev.Inputs[0], Word: w(from)}, {T: ev.Inputs[1], Data: evil},
			{T: ev.Inputs[2], Elems: []refmodel.Value{{T: ev.Inputs[2].Fields[0], Word: w(from)}, {T: ev.Inputs[2].Fields[1], Word: w([]byte{byte(i)})}}}}
		topics, data := ev.LogOf(vals)
		tx := sim.Tx{Idx: 0, From: from, To: append([]byte(c15Marker+"'--"), make([]byte, 13)...), Value: big.NewInt(int64(i)), Input: evil, GasPrice: big.NewInt(1), V: big.NewInt(1), R: big.NewInt(1), S: big.NewInt(1), EffGasPrice: big.NewInt(1),
			Logs: []sim.Log{{Addr: bytes.Repeat([]byte{0x77}, 20), Topics: topics, Data: data, Event: ev, Vals: vals, Kind: "match"}}}
		c.Append([]sim.Tx{tx})
	}
	return c
}

// runLifecycle validates, migrates and runs the configuration against the fake
// Postgres, recording every SQL text. Returns whether it was accepted and the
// SQL texts / unrecognised statements.
func c15Lifecycle(conf config.Root, node *sim.Node) (accepted bool, verr error, sqlTexts, unrec []string, runErr string) {
	if err := config.ValidateFix(&conf); err != nil {
		return false, err, nil, nil, ""
	}
	pg, _ := env()
	name := fmt.Sprintf("inj%d", dbSeq.Add(1))
	db := pg.NewDB(name)
	db.KeepSQL = true
	db.ApplyShovelSchema()
	defer pg.DropDB(name)
	pool, err := pgxpool.New(context.Background(), pg.URL(name))
	if err != nil {
		return true, nil, nil, nil, err.Error()
	}
	defer pool.Close()
	collect := func() {
		sqlTexts, unrec = db.SQLTexts(), db.Unrecognised()
	}
	if err := config.Migrate(context.Background(), pool, conf); err != nil {
		collect()
		return true, nil, sqlTexts, unrec, "migrate: " + err.Error()
	}
	if msg := c15RunTasks(conf.Integrations, conf.Sources, pool, node); msg != "" {
		collect()
		return true, nil, sqlTexts, unrec, msg
	}
	collect()
	return true, nil, sqlTexts, unrec, ""
}

// c15RunTasks builds the tasks exactly as shovel's loadTasks does (one per enabled
// integration and source reference) and runs them over the chain, including a reorg
// so that the deletion statements are issued too.
func c15RunTasks(igs []config.Integration, srcs []config.Source, pool *pgxpool.Pool, node *sim.Node) string {
	conf := config.Root{Integrations: igs, Sources: srcs}
	clients := map[string]*jrpc2.Client{}
	var tasks []*shovel.Task
	for _, ig := range conf.Integrations {
		if !ig.Enabled {
			continue // no task, but its table was migrated above
		}
		for _, sr := range ig.Sources {
			var sc *config.Source
			for i := range conf.Sources {
				if conf.Sources[i].Name == sr.Name {
					sc = &conf.Sources[i]
				}
			}
			if sc == nil {
				continue
			}
			if clients[sc.Name] == nil {
				bad := false
				for _, u := range sc.URLs {
					if _, err := neturl.Parse(u); err != nil {
						bad = true // shovel prints "unable to parse url" and exits at start-up
					}
				}
				if bad {
					continue
				}
				clients[sc.Name] = jrpc2.New(sc.URLs...).WithPollDuration(time.Hour).WithMaxReads(2)
			}
			ctx := wctx.WithIGName(wctx.WithSrcName(wctx.WithChainID(context.Background(), sc.ChainID), sc.Name), ig.Name)
			var task *shovel.Task
			var terr error
			if p := catch(func() {
				task, terr = shovel.NewTask(shovel.WithContext(ctx), shovel.WithPG(pool), shovel.WithRange(sr.Start, sr.Stop), shovel.WithConcurrency(sc.Concurrency, sc.BatchSize),
					shovel.WithSrcName(sc.Name), shovel.WithChainID(sc.ChainID), shovel.WithSource(clients[sc.Name]), shovel.WithIntegration(ig))
			}); p != nil {
				return fmt.Sprintf("NewTask panicked: %v", p)
			}
			if terr == nil {
				tasks = append(tasks, task)
			}
		}
	}
	step := func() {
		for _, task := range tasks {
			catch(func() { task.Converge() })
		}
	}
	for i := 0; i < 3; i++ {
		step()
	}
	// a reorg so that the deletion statements are issued too
	node.Lock()
	node.Chain.Reorg(node.Chain.Head().Num, [][]sim.Tx{nil, nil})
	node.Unlock()
	for i := 0; i < 4; i++ {
		step()
	}
	return ""
}

func c15Scan(sqlTexts, unrec []string) string {
	for _, q := range sqlTexts {
		if strings.Contains(q, c15Marker) {
			return fmt.Sprintf("the planted string reached SQL text: %.300q", q)
		}
	}
	for _, q := range unrec {
		return fmt.Sprintf("a statement of unknown shape was issued: %.300q", q)
	}
	return ""
}

// TestC15_FileConfig: every string position x hostile strings through ValidateFix
// and, when accepted, the whole life cycle.
func TestC15_FileConfig(t *testing.T) {
	ev := evid.For("C15", "FileConfig")
	_, ns := env()
	rapid.Check(t, func(rt *rapid.T) {
		node := sim.NewNode(c15Chain())
		url := ns.Attach(node, "")
		defer ns.Detach(url)
		base := c15Config(rt, url)
		// the unmodified configuration must be accepted and must run cleanly
		{
			var conf config.Root
			b, _ := json.Marshal(base)
			if err := json.Unmarshal(b, &conf); err != nil {
				rt.Fatalf("VERIF-INCONCLUSIVE base config: %v", err)
			}
			ok, verr, texts, unrec, runErr := c15Lifecycle(conf, sim.NewNode(c15Chain()))
			_ = runErr
			if !ok {
				rt.Fatalf("VERIF-INCONCLUSIVE the base configuration is rejected: %v", verr)
			}
			if v := c15Scan(texts, unrec); v != "" {
				rt.Fatalf("VERIF-VIOLATION property=C15 with chain data carrying SQL metacharacters (configuration untouched): %s", v)
			}
		}
		positions := stringPositions(base)
		hostile := c15Hostile[rapid.IntRange(0, len(c15Hostile)-1).Draw(rt, "hostile")]
		{
			// a file that declares only sources (its integrations are stored through the dashboard):
			// the source name still ends up in SQL text (application name, notification channel)
			tree := deepCopy(base)
			tree["integrations"] = []any{}
			tree["eth_sources"].([]any)[0].(map[string]any)["name"] = hostile
			b, _ := json.Marshal(tree)
			var conf config.Root
			if err := json.Unmarshal(b, &conf); err == nil {
				ev.Case(true, "sources-only "+hostile, "listed=true")
				if err := config.ValidateFix(&conf); err == nil {
					rt.Fatalf("VERIF-VIOLATION property=C15 validation accepted %q as a source name in a file without integrations, a position that is spliced into SQL text", hostile)
				}
			}
		}
		for pi := range positions {
			tree := deepCopy(base)
			ps := stringPositions(tree)
			p := ps[pi]
			p.set(hostile)
			b, _ := json.Marshal(tree)
			var conf config.Root
			if err := json.Unmarshal(b, &conf); err != nil {
				ev.Case(false, p.path+hostile, "undecodable")
				continue // e.g. a duration or number field given as another type
			}
			n2 := sim.NewNode(c15Chain())
			u2 := ns.Attach(n2, "")
			for i := range conf.Sources {
				if strings.Contains(p.path, "eth_sources") && strings.HasSuffix(p.path, ".url") {
					continue
				}
				conf.Sources[i].URLs = []string{u2}
			}
			ok, _, texts, unrec, _ := c15Lifecycle(conf, n2)
			ns.Detach(u2)
			nested := strings.Contains(p.path, "components") || strings.Contains(p.path, "filter_ref") || strings.Contains(p.path, ".unique[") || strings.Contains(p.path, ".index[")
			ev.Case(ok || nested, p.path+"="+hostile, fmt.Sprintf("accepted=%v", ok), fmt.Sprintf("listed=%v", p.listed))
			if nested && ev.WantSample(4) {
				ev.Sample(4, map[string]any{"position": p.path, "value": hostile, "accepted": ok})
			}
			if ok && p.listed {
				rt.Fatalf("VERIF-VIOLATION property=C15 validation accepted %q at %s, a position that is spliced into SQL text", hostile, p.path)
			}
			if v := c15Scan(texts, unrec); v != "" {
				rt.Fatalf("VERIF-VIOLATION property=C15 %q at %s (accepted=%v): %s", hostile, p.path, ok, v)
			}
		}
	})
}

// TestC15_Dashboard: integrations and sources submitted through the dashboard.
func TestC15_Dashboard(t *testing.T) {
	ev := evid.For("C15", "Dashboard")
	pg, ns := env()
	rapid.Check(t, func(rt *rapid.T) {
		node := sim.NewNode(c15Chain())
		url := ns.Attach(node, "")
		defer ns.Detach(url)
		base := c15Config(rt, url)
		igTree := base["integrations"].([]any)[1].(map[string]any)
		igTree["sources"] = []any{} // no task is started for it: the handler's own checks are what is observed
		if rapid.Bool().Draw(rt, "refwithoutintegration") {
			// a reference that names a table and a column but no integration: the lookup
			// statement is built from the table and column whenever a table is set
			// (dig.Filter.Accept), and only the handler's own check stands before it
			c15StripRefIntegration(igTree)
		}
		hostile := c15Hostile[rapid.IntRange(0, len(c15Hostile)-1).Draw(rt, "hostile")]
		name := fmt.Sprintf("dashinj%d", dbSeq.Add(1))
		db := pg.NewDB(name)
		db.KeepSQL = true
		db.ApplyShovelSchema()
		defer pg.DropDB(name)
		pool, err := pgxpool.New(context.Background(), pg.URL(name))
		if err != nil {
			rt.Fatalf("VERIF-INCONCLUSIVE pool: %v", err)
		}
		defer pool.Close()
		conf := config.Root{}
		conf.Dashboard.DisableAuthn = true
		// one manager per request: two restarts in quick succession are C20's subject
		newHandler := func() *web.Handler {
			return web.New(shovel.NewManager(context.Background(), pool, conf), &conf, pool)
		}
		h := newHandler()
		npos := len(stringPositions(igTree))
		for pi := 0; pi < npos; pi++ {
			tree := deepCopy(igTree)
			tree["name"] = fmt.Sprintf("ig%d", pi)
			ps := stringPositions(tree)
			p := ps[pi]
			p.set(hostile)
			listed := c15Listed(".integrations[0]" + p.path)
			body, _ := json.Marshal(tree)
			before := len(db.Rows("shovel.integrations"))
			r := httptest.NewRequest("POST", "/save-integration", bytes.NewReader(body))
			w := httptest.NewRecorder()
			h = newHandler()
			if pn := catch(func() { h.SaveIntegration(w, r) }); pn != nil {
				rt.Fatalf("VERIF-VIOLATION property=C15 /save-integration panicked: %v", pn)
			}
			stored := len(db.Rows("shovel.integrations")) > before
			ev.Case(listed, "save-integration "+p.path+"="+hostile, fmt.Sprintf("stored=%v", stored), fmt.Sprintf("listed=%v", listed))
			if listed && ev.WantSample(3) {
				ev.Sample(3, map[string]any{"route": "/save-integration", "position": p.path, "value": hostile, "stored": stored, "status": w.Code})
			}
			if stored && listed {
				rt.Fatalf("VERIF-VIOLATION property=C15 the dashboard stored an integration with %q at %s, a position that is spliced into SQL text (status %d)", hostile, p.path, w.Code)
			}
		}
		// sources
		for _, field := range []string{"name", "ethURL", "chainID"} {
			form := map[string]string{"name": "srcx", "ethURL": "http://x", "chainID": "5"}
			form[field] = hostile
			if _, err := neturl.Parse(hostile); field == "ethURL" && err != nil {
				continue // jrpc2.New exits the process on an unparseable URL (not an SQL matter)
			}
			vals := make([]string, 0)
			for k, v := range form {
				vals = append(vals, k+"="+urlEscape(v))
			}
			before := len(db.Rows("shovel.sources"))
			r := httptest.NewRequest("POST", "/save-source", strings.NewReader(strings.Join(vals, "&")))
			r.Header.Set("Content-Type", "application/x-www-form-urlencoded")
			w := httptest.NewRecorder()
			h = newHandler()
			catch(func() { h.SaveSource(w, r) })
			stored := len(db.Rows("shovel.sources")) > before
			ev.Case(field == "name", "save-source "+field+"="+hostile, fmt.Sprintf("stored=%v", stored))
			if stored && field == "name" {
				rt.Fatalf("VERIF-VIOLATION property=C15 the dashboard stored a source named %q", hostile)
			}
		}
		if v := c15Scan(db.SQLTexts(), db.Unrecognised()); v != "" {
			rt.Fatalf("VERIF-VIOLATION property=C15 dashboard: %s", v)
		}
		_ = http.StatusOK
	})
}

// TestC15_DashboardRun: what the dashboard stored is what the manager later runs
// without any further validation. One string position is made hostile, the
// integration is submitted to /save-integration; if it was stored, the stored
// integrations are loaded back (config.Root.AllIntegrations, as loadTasks does),
// turned into tasks and run over a chain with matching logs. No planted string may
// appear in any SQL text.
func TestC15_DashboardRun(t *testing.T) {
	ev := evid.For("C15", "DashboardRun")
	pg, ns := env()
	rapid.Check(t, func(rt *rapid.T) {
		node := sim.NewNode(c15Chain())
		url := ns.Attach(node, "")
		defer ns.Detach(url)
		base := c15Config(rt, url)
		igs := base["integrations"].([]any)
		hostile := c15Hostile[rapid.IntRange(0, len(c15Hostile)-1).Draw(rt, "hostile")]
		name := fmt.Sprintf("dashrun%d", dbSeq.Add(1))
		db := pg.NewDB(name)
		db.KeepSQL = true
		db.ApplyShovelSchema()
		defer pg.DropDB(name)
		pool, err := pgxpool.New(context.Background(), pg.URL(name))
		if err != nil {
			rt.Fatalf("VERIF-INCONCLUSIVE pool: %v", err)
		}
		defer pool.Close()
		conf := config.Root{}
		conf.Dashboard.DisableAuthn = true
		srcJSON, _ := json.Marshal(base["eth_sources"])
		json.Unmarshal(srcJSON, &conf.Sources)
		// the referenced integration is stored unchanged, the main one with one hostile position
		main := deepCopy(igs[1].(map[string]any))
		ps := stringPositions(main)
		pi := rapid.IntRange(0, len(ps)-1).Draw(rt, "position")
		p := ps[pi]
		p.set(hostile)
		listed := c15Listed(".integrations[1]" + p.path)
		stored := 0
		for _, tree := range []map[string]any{deepCopy(igs[0].(map[string]any)), main} {
			srcs := tree["sources"]
			tree["sources"] = []any{} // (no background tasks from the handler's own restart)
			body, _ := json.Marshal(tree)
			before := len(db.Rows("shovel.integrations"))
			r := httptest.NewRequest("POST", "/save-integration", bytes.NewReader(body))
			w := httptest.NewRecorder()
			h := web.New(shovel.NewManager(context.Background(), pool, conf), &conf, pool)
			if pn := catch(func() { h.SaveIntegration(w, r) }); pn != nil {
				rt.Fatalf("VERIF-VIOLATION property=C15 /save-integration panicked: %v", pn)
			}
			if len(db.Rows("shovel.integrations")) > before {
				stored++
			}
			tree["sources"] = srcs
		}
		ran := false
		if stored == 2 {
			if listed {
				rt.Fatalf("VERIF-VIOLATION property=C15 the dashboard stored an integration with %q at %s, a position that is spliced into SQL text", hostile, p.path)
			}
			all, err := conf.AllIntegrations(context.Background(), pool)
			if err != nil {
				rt.Fatalf("VERIF-INCONCLUSIVE loading the stored integrations: %v", err)
			}
			for i := range all {
				all[i].Sources = []config.Source{{Name: "src1", Start: 1}}
			}
			// the operator created the tables beforehand (the dashboard does not migrate)
			config.Migrate(context.Background(), pool, config.Root{Integrations: all})
			c15RunTasks(all, conf.Sources, pool, node)
			ran = true
		}
		if v := c15Scan(db.SQLTexts(), db.Unrecognised()); v != "" {
			rt.Fatalf("VERIF-VIOLATION property=C15 dashboard, %q at %s (stored=%v): %s", hostile, p.path, stored == 2, v)
		}
		ev.Case(ran, "dashboard-run "+p.path+"="+hostile, fmt.Sprintf("storedAndRun=%v", ran), fmt.Sprintf("listed=%v", listed))
		if ran && ev.WantSample(4) {
			ev.Sample(4, map[string]any{"position": p.path, "value": hostile, "requests": node.Counts()})
		}
	})
}

// TestC15_Safe: the identifier check itself against its documented rule (every
// character is a letter, a digit, '_' or '-'), over strings mixing ASCII,
// non-ASCII letters, metacharacters, symbols and invalid UTF-8.
func TestC15_Safe(t *testing.T) {
	ev := evid.For("C15", "Safe")
	alphabet := []string{"a", "Z", "0", "9", "_", "-", "é", "ß", "世", "界", "Ω", ";", "'", "\"", ")", "(", " ", ",", ".", "\n", "\x00", "€", "😀", "\xff", "\xc3", "`", "$", "*", "=", "/", "\\", "٣"}
	rapid.Check(t, func(rt *rapid.T) {
		n := rapid.IntRange(0, 12).Draw(rt, "len")
		var sb strings.Builder
		for i := 0; i < n; i++ {
			sb.WriteString(rapid.SampledFrom(alphabet).Draw(rt, "piece"))
		}
		s := sb.String()
		want := true
		multi, meta := false, false
		for i := 0; i < len(s); {
			r, size := utf8.DecodeRuneInString(s[i:])
			if size > 1 {
				multi = true
			}
			if !(unicode.IsLetter(r) || unicode.IsDigit(r) || r == '_' || r == '-') {
				want = false
				meta = true
			}
			i += size
		}
		if got := wstrings.Safe(s) == nil; got != want {
			rt.Fatalf("VERIF-VIOLATION property=C15 wstrings.Safe(%q) accepted=%v, the rule says %v", s, got, want)
		}
		ev.Case(multi && meta, s, fmt.Sprintf("accepted=%v", want), fmt.Sprintf("multibyte=%v", multi))
		if multi && meta {
			ev.Sample(4, s)
		}
	})
}

func urlEscape(s string) string {
	var sb strings.Builder
	for i := 0; i < len(s); i++ {
		c := s[i]
		if c >= 'a' && c <= 'z' || c >= 'A' && c <= 'Z' || c >= '0' && c <= '9' {
			sb.WriteByte(c)
		} else {
			fmt.Fprintf(&sb, "%%%02X", c)
		}
	}
	return sb.String()
}

var _ = fakepg.Norm
