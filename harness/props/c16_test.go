package props

// C16 — generated schema fits the data: required columns, shared-table union, unique key.

import (
	"os"
	"encoding/json"
	"fmt"
	"strings"
	"testing"

	"github.com/indexsupply/shovel/shovel/config"
	"pgregory.net/rapid"

	"verifharness/evid"
	"verifharness/fakepg"
	"verifharness/gen"
	"verifharness/refmodel"
	"verifharness/sim"
)

var identityCols = []string{"ig_name", "src_name", "block_num", "tx_idx", "log_idx", "abi_idx", "trace_action_idx"}

func validateOnly(decls []*refmodel.Decl) error {
	var igs []any
	for _, d := range decls {
		igs = append(igs, d.JSON())
	}
	raw, _ := json.Marshal(map[string]any{"pg_url": "x", "eth_sources": []any{map[string]any{"name": "src1", "chain_id": 1, "url": "http://x"}}, "integrations": igs})
	var conf config.Root
	if err := json.Unmarshal(raw, &conf); err != nil {
		return err
	}
	return config.ValidateFix(&conf)
}

func c16Property(rt *rapid.T, ev *evid.Rec) {
	pool := gen.NewPool()
	nd := rapid.IntRange(1, 3).Draw(rt, "ndecls")
	var decls []*refmodel.Decl
	shared, excluded, userIndex, columnOnly := false, false, false, false
	for i := 0; i < nd; i++ {
		do := gen.DeclOpts{Pool: pool, Name: fmt.Sprintf("ig%d", i+1), Table: fmt.Sprintf("t%d", i+1), AllowNotify: true,
			Event: gen.EventOpts{Types: gen.TypeOpts{MaxDepth: 3, MaxTuple: 3, MaxFixed: 3}, MaxInputs: 4, SelProb: 50}}
		d := gen.GenDecl(rt, do)
		d.Sources = []refmodel.SourceRef{{Name: "src1", Start: 1}}
		if i > 0 && rapid.IntRange(0, 2).Draw(rt, "share") == 0 {
			o := decls[rapid.IntRange(0, i-1).Draw(rt, "sharewith")]
			if identitySig(o) == identitySig(d) {
				// columns of the same name must agree in type across integrations of one table
				clash := false
				for _, other := range decls { // every integration already on that table
					if other.Table != o.Table {
						continue
					}
					if identitySig(other) != identitySig(d) {
						clash = true
					}
					for _, c1 := range d.Columns {
						for _, c2 := range other.Columns {
							if c1.Name == c2.Name && c1.Type != c2.Type {
								clash = true
							}
						}
					}
				}
				if !clash {
					d.Table = o.Table
					shared = true
				}
			} else {
				excluded = true // open finding C16/shared-table-unique-key-first-wins
			}
		}
		// user-supplied identity columns (declared explicitly, possibly with another integer type)
		for _, idc := range []string{"block_num", "tx_idx", "log_idx"} {
			if idc == "log_idx" && d.Kind() != "log" {
				continue
			}
			if rapid.IntRange(0, 3).Draw(rt, "userid:"+idc) == 0 {
				has := false
				for _, b := range d.Block {
					if b.Name == idc {
						has = true
					}
				}
				for _, c := range d.Columns {
					if c.Name == idc {
						has = true // already declared by the generator
					}
				}
				if !has {
					// declared with its block entry, or as a table column only (shovel adds the field)
					if rapid.Bool().Draw(rt, "withblockentry") {
						d.Block = append(d.Block, refmodel.BlockField{Name: idc, Column: idc})
					} else {
						columnOnly = true
					}
					d.Columns = append(d.Columns, refmodel.Column{Name: idc, Type: rapid.SampledFrom([]string{"numeric", "int", "int8"}).Draw(rt, "idtype")})
				}
			}
		}
		// user-supplied secondary indexes (any of its columns); they do not replace the generated unique key
		if rapid.IntRange(0, 2).Draw(rt, "userindex") == 0 && len(d.Columns) > 0 {
			for k := rapid.IntRange(1, 2).Draw(rt, "nindex"); k > 0; k-- {
				var cols []string
				for _, c := range rapid.Permutation(d.Columns).Draw(rt, "indexcols") {
					if len(cols) < 2 {
						cols = append(cols, c.Name)
					}
				}
				d.Index = append(d.Index, cols)
			}
			userIndex = true
		}
		decls = append(decls, d)
	}
	desc := func() string { return (&machine{decls: decls}).describeConfig() }
	// ---- validation: reference checks --------------------------------------------------
	if err := validateOnly(decls); err != nil {
		rt.Fatalf("VERIF-VIOLATION property=C16 a configuration with a column for every selected input, block field and notification column was rejected: %v\n %s", err, desc())
	}
	{
		// remove one referenced column: must be rejected
		vi := rapid.IntRange(0, len(decls)-1).Draw(rt, "victim")
		cp := *decls[vi]
		kind := rapid.IntRange(0, 3).Draw(rt, "breakkind")
		what := ""
		switch {
		case kind == 3 && len(nonIdentity(cp.Block)) > 0:
			// a block field that carries a filter but names no column at all
			cands := nonIdentity(cp.Block)
			victim := cands[rapid.IntRange(0, len(cands)-1).Draw(rt, "nocolfield")].Name
			cp.Block = append([]refmodel.BlockField{}, cp.Block...)
			for i := range cp.Block {
				if cp.Block[i].Name == victim {
					cp.Block[i].Column = ""
					cp.Block[i].Filter = &refmodel.Filter{Op: "ne", Args: []string{"0x00"}}
				}
			}
			what = "block field " + victim + " (filter only, no column)"
		case kind == 0 && cp.Event != nil && len(cp.Event.Selected()) > 0:
			col := cp.Event.Selected()[rapid.IntRange(0, len(cp.Event.Selected())-1).Draw(rt, "selcol")].Column
			cp.Columns = dropCol(cp.Columns, col)
			what = "column of selected input " + col
		case kind == 1 && len(nonIdentity(cp.Block)) > 0:
			// (identity columns are added automatically when missing: not a rejection case)
			cands := nonIdentity(cp.Block)
			col := cands[rapid.IntRange(0, len(cands)-1).Draw(rt, "bfcol")].Column
			cp.Columns = dropCol(cp.Columns, col)
			what = "column of block field " + col
		default:
			cp.Notify = append(append([]string{}, cp.Notify...), "no_such_column")
			what = "notification column no_such_column"
		}
		broken := append([]*refmodel.Decl{}, decls...)
		broken[vi] = &cp
		if err := validateOnly(broken); err == nil {
			rt.Fatalf("VERIF-VIOLATION property=C16 validation accepted a configuration without a table column for: %s (integration %s)\n %s", what, cp.Name, desc())
		}
	}
	// ---- schema + data -------------------------------------------------------------------
	co := gen.ChainOpts{MaxTxs: 3, MaxLogs: 4, MaxTraces: 3, Pool: pool, Values: gen.ValueOpts{MaxDynLen: 3, MaxBytes: 30, Pool: pool}}
	for _, d := range decls {
		if d.Kind() == "log" {
			co.Events = append(co.Events, d.Event)
		}
		if d.Kind() == "trace" {
			co.EveryBlockTraced = true
		}
	}
	node := sim.NewNode(sim.NewChain())
	nblocks := rapid.IntRange(1, 4).Draw(rt, "nblocks")
	for i := 0; i < nblocks; i++ {
		node.Chain.Append(gen.GenTxs(rt, co))
	}
	preexisting := false
	// an existing table with fewer columns (and no unique index yet)
	pre := func(db *fakepg.DB) {}
	if rapid.IntRange(0, 2).Draw(rt, "preexisting") == 0 {
		d := decls[rapid.IntRange(0, len(decls)-1).Draw(rt, "pretable")]
		var defs []string
		// some of its columns, or every column it will ever write (a hand-made table, or only the
		// create-table line of a printed schema applied): the unique key still has to be created
		all := rapid.IntRange(0, 2).Draw(rt, "preall") == 0
		cols := d.Columns
		if all {
			cols = d.WithRequired().Columns
		}
		for _, c := range cols {
			if all || rapid.Bool().Draw(rt, "precol:"+c.Name) {
				defs = append(defs, fmt.Sprintf("%s %s", c.Name, c.Type))
			}
		}
		if !all || rapid.Bool().Draw(rt, "legacycol") {
			defs = append(defs, "legacy_note text")
		}
		sql := fmt.Sprintf("create table if not exists %s(%s)", d.Table, strings.Join(defs, ", "))
		pre = func(db *fakepg.DB) {
			if err := db.Exec(sql); err != nil {
				panic("pre-existing table: " + err.Error())
			}
		}
		preexisting = true
	}
	w, err := NewWorld(quietT{}, []*SourceCfg{{Name: "src1", ChainID: 1, Batch: rapid.IntRange(1, 3).Draw(rt, "batch"), Conc: 1, Node: node}}, decls, WithPreMigrate(pre))
	if w != nil {
		defer w.Close()
	}
	if err != nil {
		rt.Fatalf("VERIF-VIOLATION property=C16 accepted configuration could not be migrated: %v\n %s", err, desc())
	}
	// every written column exists with the union for shared tables
	for _, d := range decls {
		have := map[string]bool{}
		for _, c := range w.db.TableCols(d.Table) {
			have[c.Name] = true
		}
		for _, c := range d.WithRequired().Columns {
			if !have[c.Name] {
				rt.Fatalf("VERIF-VIOLATION property=C16 table %s lacks column %s that integration %s writes\n %s", d.Table, c.Name, d.Name, desc())
			}
		}
	}
	// the printed schema (config.DDL, `--print-schema`) applied to an empty database gives every
	// table the columns of all its integrations as well
	{
		pg, _ := env()
		name := fmt.Sprintf("ddl%d", dbSeq.Add(1))
		ddb := pg.NewDB(name)
		for _, stmt := range config.DDL(w.conf) {
			if err := ddb.Exec(stmt); err != nil {
				pg.DropDB(name)
				rt.Fatalf("VERIF-VIOLATION property=C16 a statement of the printed schema fails on an empty database: %v\n %s\n %s", err, stmt, desc())
			}
		}
		for _, d := range decls {
			have := map[string]bool{}
			for _, c := range ddb.TableCols(d.Table) {
				have[c.Name] = true
			}
			for _, c := range d.WithRequired().Columns {
				if !have[c.Name] {
					pg.DropDB(name)
					rt.Fatalf("VERIF-VIOLATION property=C16 the printed schema gives table %s no column %s, which integration %s writes\n %s", d.Table, c.Name, d.Name, desc())
				}
			}
		}
		pg.DropDB(name)
	}
	rowsPer := map[string]int{}
	for round := 0; round < nblocks+3; round++ {
		for _, p := range w.Pairs {
			r := w.Step(p)
			if r.Panic != nil {
				rt.Fatalf("VERIF-VIOLATION property=C16 Converge panicked: %v\n %s", r.Panic, desc())
			}
			if r.Outcome() == "error" {
				rt.Fatalf("VERIF-VIOLATION property=C16 inserting the rows of a block into the generated schema failed: %s\n %s", errString(r.Err), desc())
			}
		}
	}
	for _, p := range w.Pairs {
		if c := w.Cursor(p); !c.OK || c.Num != uint64(nblocks) {
			rt.Fatalf("VERIF-VIOLATION property=C16 %s did not reach the head: %s\n %s", p.Key(), curStr(c), desc())
		}
		if v := w.CheckPair(p); v != "" {
			rt.Fatalf("VERIF-VIOLATION property=C16 %s\n %s", v, desc())
		}
		rowsPer[p.Key()] = len(w.TableRows(p))
	}
	// a re-insert of the same blocks must collide with the generated unique key
	collided := false
	for _, p := range w.Pairs {
		if rowsPer[p.Key()] == 0 {
			continue
		}
		recorded := pairRows(w.db.Rows("shovel.task_updates"), p.Src.Name, p.Decl.Name)
		if err := w.db.Exec(fakepgDelCursor, p.Src.Name, p.Decl.Name, bigZero()); err != nil {
			rt.Fatalf("VERIF-INCONCLUSIVE cannot reset position: %v", err)
		}
		failed := false
		for i := 0; i < nblocks+1; i++ {
			r := w.Step(p)
			if r.Err != nil && (strings.Contains(r.Err.Error(), "23505") || strings.Contains(r.Err.Error(), "duplicate key")) {
				failed = true
				break
			}
		}
		if !failed {
			rt.Fatalf("VERIF-VIOLATION property=C16 re-inserting the blocks of %s (%d rows) did not collide with the generated unique key: rows are now duplicated (%d)\n indexes: %+v\n %s", p.Key(), rowsPer[p.Key()], len(w.TableRows(p)), w.db.TableIndexes(p.Decl.Table), desc())
		}
		collided = true
		// (the positions are put back for what follows)
		for _, r := range recorded {
			if err := w.db.InsertRow("shovel.task_updates", r); err != nil {
				rt.Fatalf("VERIF-INCONCLUSIVE cannot restore position: %v", err)
			}
		}
	}
	// rows that can be told apart and collide when written again: no row may hold NULL in a
	// column of the generated key (NULLs never collide in a unique index)
	keyNulls := func(when string) {
		for _, p := range w.Pairs {
			for _, ix := range w.db.TableIndexes(p.Decl.Table) {
				if !ix.Unique || ix.Name != "u_"+p.Decl.Table {
					continue
				}
				for _, r := range w.TableRows(p) {
					for _, c := range ix.Cols {
						if r[c] == nil {
							rt.Fatalf("VERIF-VIOLATION property=C16 %s: %s stored a row with NULL in %s, a column of the generated unique key %v: such a row never collides with a re-insert\n row: %v\n %s", when, p.Key(), c, ix.Cols, r, desc())
						}
					}
				}
			}
		}
	}
	keyNulls("after indexing the chain")
	// a log that carries the event's topics and no data (any contract can emit one): refused or
	// stored, but never stored without its place in the key
	emptyData := false
	for _, d := range decls {
		if d.Kind() != "log" || !strings.HasSuffix(identitySig(d), "+abi_idx") || emptyData || rapid.IntRange(0, 2).Draw(rt, "emptydatalog") != 0 {
			continue
		}
		emptyData = true
		vals := gen.GenEventValues(rt, d.Event, co.Values)
		topics, _ := d.Event.LogOf(vals)
		tx := gen.GenTx(rt, co)
		tx.Logs = append(tx.Logs, sim.Log{Addr: append([]byte{}, pool.Addrs[0]...), Topics: topics, Event: d.Event, Vals: vals, Kind: "decoy-emptydata"})
		node.Lock()
		node.Chain.Append([]sim.Tx{tx})
		node.Unlock()
		for _, p := range w.Pairs {
			if p.Decl.Name == d.Name {
				for i := 0; i < 2; i++ {
					r := w.Step(p)
					if os.Getenv("C16DBG") != "" {
						fmt.Printf("C16DBG %s %s err=%s cursor %s->%s rows=%d\n", p.Key(), r.Outcome(), errString(r.Err), curStr(r.Before), curStr(r.After), len(w.TableRows(p)))
					}
					if r.Panic != nil {
						rt.Fatalf("VERIF-VIOLATION property=C16 Converge panicked on a log without data: %v\n %s", r.Panic, desc())
					}
				}
			}
		}
		keyNulls("after a log with the event's topics and no data")
	}
	nontrivial := shared || preexisting
	ev.Case(nontrivial, desc()+fmt.Sprint(rowsPer), fmt.Sprintf("emptyDataLog=%v", emptyData), fmt.Sprintf("shared=%v", shared), fmt.Sprintf("preexisting=%v", preexisting), fmt.Sprintf("userIndex=%v", userIndex), fmt.Sprintf("identityColumnWithoutBlockEntry=%v", columnOnly), fmt.Sprintf("collisionChecked=%v", collided))
	if excluded {
		ev.Excluded(1)
	}
	if nontrivial && ev.WantSample(3) {
		ev.Sample(3, map[string]any{"config": desc(), "rows": rowsPer})
	}
}

func nonIdentity(bs []refmodel.BlockField) []refmodel.BlockField {
	var out []refmodel.BlockField
	for _, b := range bs {
		id := false
		for _, c := range identityCols {
			if b.Name == c {
				id = true
			}
		}
		if !id {
			out = append(out, b)
		}
	}
	return out
}

func dropCol(cols []refmodel.Column, name string) []refmodel.Column {
	var out []refmodel.Column
	for _, c := range cols {
		if c.Name != name {
			out = append(out, c)
		}
	}
	return out
}

func TestC16_Schema(t *testing.T) {
	ev := evid.For("C16", "Schema")
	rapid.Check(t, func(rt *rapid.T) { c16Property(rt, ev) })
}

// sharedUniqueRepro: transaction- and log-indexing integrations sharing a table.
func sharedUniqueRepro() string {
	txd := simpleTxDecl("txs", 1)
	txd.Table = "shared"
	lg := xferDecl("xfers", 1, false)
	lg.Table = "shared"
	node := sim.NewNode(sim.NewChain())
	node.Chain.Append(xferTxs(3)) // two logs in one transaction
	w, err := NewWorld(quietT{}, []*SourceCfg{{Name: "src1", ChainID: 1, Batch: 1, Conc: 1, Node: node}}, []*refmodel.Decl{txd, lg})
	if w != nil {
		defer w.Close()
	}
	if err != nil {
		return "set-up: " + err.Error()
	}
	for i := 0; i < 3; i++ {
		for _, p := range w.Pairs {
			if r := w.Step(p); r.Outcome() == "error" {
				return fmt.Sprintf("%s cannot insert its rows into the shared table: %s", p.Key(), errString(r.Err))
			}
		}
	}
	for _, p := range w.Pairs {
		if v := w.CheckPair(p); v != "" {
			return v
		}
	}
	return ""
}

func TestC16_KnownFindings(t *testing.T) {
	knownFinding(t, "C16", "C16/shared-table-unique-key-first-wins", sharedUniqueRepro)
}
