package props

// C14 — every selectable field is actually fetched: no column silently left zero.

import (
	"fmt"
	"math/big"
	"sort"
	"strings"
	"testing"

	"pgregory.net/rapid"

	"verifharness/evid"
	"verifharness/gen"
	"verifharness/refmodel"
	"verifharness/sim"
)

// every field name the row builder understands (read off the documentation
// table / dig's field lookup), except abi_idx which is decoder-local
var c14AllFields = []string{
	"src_name", "ig_name", "chain_id",
	"block_hash", "block_num", "block_time",
	"tx_hash", "tx_idx", "tx_signer", "tx_to", "tx_value", "tx_input", "tx_type", "tx_nonce",
	"tx_gas_price", "tx_max_priority_fee_per_gas", "tx_max_fee_per_gas",
	"tx_status", "tx_gas_used", "tx_effective_gas_price", "tx_contract_address",
	"log_idx", "log_addr",
	"trace_action_call_type", "trace_action_idx", "trace_action_from", "trace_action_to", "trace_action_value",
}

func c14Class(f string) string {
	switch {
	case strings.HasPrefix(f, "trace_"):
		return "trace"
	case strings.HasPrefix(f, "log_"):
		return "log"
	case f == "tx_status" || f == "tx_gas_used" || f == "tx_effective_gas_price" || f == "tx_contract_address":
		return "receipt"
	case strings.HasPrefix(f, "block_"):
		return "header"
	case strings.HasPrefix(f, "tx_"):
		return "block"
	}
	return "ctx"
}

// distinctChain: 3 blocks, every field of every item distinct and non-zero.
func distinctChain() *sim.Chain {
	c := sim.NewChain()
	ctr := int64(1000)
	nb := func() *big.Int { ctr += 7; return big.NewInt(ctr) }
	addr := func() []byte {
		ctr += 3
		a := make([]byte, 20)
		for i := range a {
			a[i] = byte(ctr) + byte(i*7+1)
		}
		a[0] |= 0x80
		return a
	}
	ev := xferEvent()
	for b := 0; b < 3; b++ {
		var txs []sim.Tx
		for i := 0; i < 2; i++ {
			ctr += 11
			tx := sim.Tx{Idx: uint64(i), From: addr(), Value: nb(), Input: []byte{byte(ctr), byte(ctr >> 8), 0x77, byte(i + 1)}, Type: []byte{2, 3, 4}[(2*b+i)%3], // every type that carries fee caps
				Nonce: uint64(ctr), Gas: uint64(30000 + ctr), GasPrice: nb(), MaxPrio: nb(), MaxFee: nb(), V: big.NewInt(1), R: nb(), S: nb(),
				Status: 1, GasUsed: uint64(21000 + ctr), EffGasPrice: nb()}
			if i == 0 {
				tx.To = addr()
			} else {
				tx.ContractAddr = addr()
			}
			for j := 0; j < 2; j++ {
				w := func(x []byte) []byte { y := make([]byte, 32); copy(y[32-len(x):], x); return y }
				vals := []refmodel.Value{{T: ev.Inputs[0], Word: w(addr())}, {T: ev.Inputs[1], Word: w(addr())}, {T: ev.Inputs[2], Word: w(nb().Bytes())}}
				topics, data := ev.LogOf(vals)
				tx.Logs = append(tx.Logs, sim.Log{Addr: addr(), Topics: topics, Data: data, Event: ev, Vals: vals, Kind: "match"})
			}
			{
				// one log of an event whose only inputs are the members of a struct
				wv := wrappedEvent()
				tup := wv.Inputs[0]
				w := func(x []byte) []byte { y := make([]byte, 32); copy(y[32-len(x):], x); return y }
				vals := []refmodel.Value{{T: tup, Elems: []refmodel.Value{{T: tup.Fields[0], Word: w(addr())}, {T: tup.Fields[1], Word: w(nb().Bytes())}}}}
				topics, data := wv.LogOf(vals)
				tx.Logs = append(tx.Logs, sim.Log{Addr: addr(), Topics: topics, Data: data, Event: wv, Vals: vals, Kind: "match"})
			}
			for j := 0; j < 2; j++ {
				tx.Traces = append(tx.Traces, sim.Trace{From: addr(), To: addr(), Value: nb(), CallType: []string{"call", "delegatecall", "staticcall", "callcode"}[(b+i+j)%4]})
			}
			txs = append(txs, tx)
		}
		c.Append(txs)
	}
	return c
}

// wrappedEvent: every selected input is a member of a struct input.
func wrappedEvent() *refmodel.Event {
	return &refmodel.Event{Name: "Wrapped", Inputs: []*refmodel.Type{{Kind: refmodel.KTuple, Name: "t", Fields: []*refmodel.Type{
		{Kind: refmodel.KAddress, Name: "who", Column: "f"}, {Kind: refmodel.KUint, Bits: 256, Name: "amount", Column: "v"}}}}}
}

// c14Struct: the event context uses the struct-only event instead of Transfer.
var c14Struct bool

// c14Decl builds the declaration for a field set in a context.
func c14Decl(fields []string, withEvent bool) *refmodel.Decl {
	d := &refmodel.Decl{Name: "ig", Enabled: true, Table: "tb", Filters: map[*refmodel.Type]*refmodel.Filter{}, Sources: []refmodel.SourceRef{{Name: "src1", Start: 1}}}
	if withEvent {
		d.Event = xferEvent()
		d.Event.Inputs[1].Column = "" // one indexed selected, one unselected, one data input selected
		if c14Struct {
			d.Event = wrappedEvent()
		}
		d.Columns = append(d.Columns, refmodel.Column{Name: "f", Type: "bytea"}, refmodel.Column{Name: "v", Type: "numeric"})
	}
	for _, f := range fields {
		col := f
		if c14Rename && !c14Identity[f] {
			// a field may be stored under any column name: what is fetched depends on the field
			col = "x_" + f
		}
		d.Block = append(d.Block, refmodel.BlockField{Name: f, Column: col})
		d.Columns = append(d.Columns, refmodel.Column{Name: col, Type: gen.FieldColType[f]})
	}
	if c14DeclareIdentity {
		// the identity columns are spelled out in the table, their block fields are left to shovel
		for _, c := range []refmodel.Column{{Name: "block_num", Type: "numeric"}, {Name: "tx_idx", Type: "int"}, {Name: "log_idx", Type: "int"}, {Name: "ig_name", Type: "text"}, {Name: "src_name", Type: "text"}} {
			has := c.Name == "log_idx" && !withEvent
			for _, x := range d.Columns {
				if x.Name == c.Name {
					has = true
				}
			}
			if !has {
				d.Columns = append(d.Columns, c)
			}
		}
	}
	return d
}

// c14DeclareIdentity: identity columns are declared in table.columns without block entries.
var c14DeclareIdentity bool

// c14Rename: store every non-identity field under a column of another name.
var c14Rename bool

var c14Identity = map[string]bool{"ig_name": true, "src_name": true, "block_num": true, "tx_idx": true, "log_idx": true, "abi_idx": true, "trace_action_idx": true}

// c14Run indexes the distinct chain with the declaration and compares.
func c14Run(fields []string, withEvent bool) string {
	defer func() { c14Rename, c14Struct, c14DeclareIdentity = false, false, false }()
	for _, variant := range []struct{ rename, structEv, ident bool }{{false, false, false}, {true, false, false}, {false, true, false}, {false, false, true}} {
		if variant.structEv && !withEvent {
			continue
		}
		c14Rename, c14Struct, c14DeclareIdentity = variant.rename, variant.structEv, variant.ident
		if v := c14RunOnce(fields, withEvent); v != "" {
			switch {
			case variant.rename:
				return "(fields stored under columns named x_<field>) " + v
			case variant.structEv:
				return "(event whose selected inputs are all members of a struct) " + v
			case variant.ident:
				return "(identity columns declared in the table without block entries) " + v
			}
			return v
		}
	}
	return ""
}

func c14RunOnce(fields []string, withEvent bool) string {
	node := sim.NewNode(distinctChain())
	// in the renamed-columns variant the node also lists the receipts of a block last
	// transaction first: a receipt belongs to the transaction it names, not to its place
	node.ReverseReceipts = c14Rename
	d := c14Decl(fields, withEvent)
	w, err := NewWorld(quietT{}, []*SourceCfg{{Name: "src1", ChainID: 77, Batch: 2, Conc: 1, Node: node}}, []*refmodel.Decl{d})
	if w != nil {
		defer w.Close()
	}
	if err != nil {
		return "configuration refused or migration failed: " + err.Error()
	}
	p := w.Pairs[0]
	var last StepResult
	for i := 0; i < 5; i++ {
		last = w.Step(p)
		if last.Panic != nil {
			return fmt.Sprintf("Converge panicked: %v", last.Panic)
		}
	}
	cur := w.Cursor(p)
	if !cur.OK || cur.Num != 3 {
		return fmt.Sprintf("indexing does not reach the head: position %s after 5 steps (last: %s %s)", curStr(cur), last.Outcome(), errString(last.Err))
	}
	return w.CheckPair(p)
}

func c14Allowed(withEvent bool) []string {
	var out []string
	for _, f := range c14AllFields {
		cl := c14Class(f)
		if withEvent && cl == "trace" {
			continue
		}
		if !withEvent && cl == "log" {
			continue
		}
		out = append(out, f)
	}
	return out
}

// known-finding predicates (none open at the moment): sets removed from the search
func c14Excluded(fields []string, withEvent bool) bool {
	return false
}

// TestC14_SinglesAndPairs: exhaustive over every field alone and every pair.
func TestC14_SinglesAndPairs(t *testing.T) {
	ev := evid.For("C14", "SinglesAndPairs")
	si, sn := shard()
	n := 0
	for _, withEvent := range []bool{false, true} {
		fs := c14Allowed(withEvent)
		var sets [][]string
		for i := range fs {
			sets = append(sets, []string{fs[i]})
			for j := i + 1; j < len(fs); j++ {
				sets = append(sets, []string{fs[i], fs[j]})
			}
		}
		for _, set := range sets {
			n++
			if (n-1)%sn != si {
				continue
			}
			if c14Excluded(set, withEvent) {
				ev.Excluded(1)
				continue
			}
			classes := map[string]bool{}
			for _, f := range set {
				classes[c14Class(f)] = true
			}
			if withEvent {
				classes["log"] = true
			}
			canon := fmt.Sprintf("event=%v %v", withEvent, set)
			ev.Case(len(classes) >= 2, canon, fmt.Sprintf("classes=%d", len(classes)))
			if len(set) == 2 && classes["receipt"] && ev.WantSample(4) {
				ev.Sample(4, map[string]any{"fields": set, "with_event": withEvent})
			}
			if v := c14Run(set, withEvent); v != "" {
				t.Fatalf("VERIF-VIOLATION property=C14 fields=%v with_event=%v: %s", set, withEvent, v)
			}
		}
	}
	ev.Set("exhaustive_singles_and_pairs", true)
}

// TestC14_LargerSets: random larger sets by membership class.
func TestC14_LargerSets(t *testing.T) {
	ev := evid.For("C14", "LargerSets")
	rapid.Check(t, func(rt *rapid.T) {
		withEvent := rapid.Bool().Draw(rt, "event")
		fs := c14Allowed(withEvent)
		var set []string
		// first choose classes, then members: whole classes in and out
		byClass := map[string][]string{}
		for _, f := range fs {
			byClass[c14Class(f)] = append(byClass[c14Class(f)], f)
		}
		var classes []string
		for c := range byClass {
			classes = append(classes, c)
		}
		sort.Strings(classes)
		for _, c := range classes {
			switch rapid.IntRange(0, 3).Draw(rt, "class:"+c) {
			case 0:
			case 1:
				set = append(set, byClass[c]...)
			default:
				for _, f := range byClass[c] {
					if rapid.Bool().Draw(rt, "f:"+f) {
						set = append(set, f)
					}
				}
			}
		}
		if len(set) == 0 {
			set = []string{rapid.SampledFrom(fs).Draw(rt, "one")}
		}
		set = rapid.Permutation(set).Draw(rt, "order")
		if c14Excluded(set, withEvent) {
			ev.Excluded(1)
			rt.Skip()
		}
		cl := map[string]bool{}
		for _, f := range set {
			cl[c14Class(f)] = true
		}
		ev.Case(len(cl) >= 2, fmt.Sprintf("event=%v %v", withEvent, set), fmt.Sprintf("classes=%d", len(cl)), fmt.Sprintf("size=%d", min(len(set)/4*4, 24)))
		ev.Sample(3, map[string]any{"fields": set, "with_event": withEvent})
		if v := c14Run(set, withEvent); v != "" {
			rt.Fatalf("VERIF-VIOLATION property=C14 fields=%v with_event=%v: %s", set, withEvent, v)
		}
	})
}

func c14DrawSet(rt *rapid.T, withEvent bool, label string) []string {
	fs := c14Allowed(withEvent)
	var set []string
	for _, f := range fs {
		if rapid.IntRange(0, 3).Draw(rt, label+":"+f) == 0 {
			set = append(set, f)
		}
	}
	if len(set) == 0 {
		set = []string{rapid.SampledFrom(fs).Draw(rt, label+"one")}
	}
	return set
}

// TestC14_TwoIntegrations: two integrations with different field sets (hence
// different data plans) read the same ranges through one source client.
func TestC14_TwoIntegrations(t *testing.T) {
	ev := evid.For("C14", "TwoIntegrations")
	rapid.Check(t, func(rt *rapid.T) {
		evA, evB := rapid.Bool().Draw(rt, "eventA"), rapid.Bool().Draw(rt, "eventB")
		setA, setB := c14DrawSet(rt, evA, "a"), c14DrawSet(rt, evB, "b")
		node := sim.NewNode(distinctChain())
		node.ReverseReceipts = rapid.Bool().Draw(rt, "receiptslasttxfirst")
		da, db := c14Decl(setA, evA), c14Decl(setB, evB)
		da.Name, da.Table = "iga", "ta"
		db.Name, db.Table = "igb", "tb"
		w, err := NewWorld(quietT{}, []*SourceCfg{{Name: "src1", ChainID: 77, Batch: rapid.IntRange(1, 3).Draw(rt, "batch"), Conc: 1, Node: node}}, []*refmodel.Decl{da, db})
		if w != nil {
			defer w.Close()
		}
		if err != nil {
			rt.Fatalf("VERIF-VIOLATION property=C14 configuration refused: %v (A=%v B=%v)", err, setA, setB)
		}
		order := rapid.SliceOfN(rapid.IntRange(0, 1), 8, 12).Draw(rt, "order")
		for _, i := range order {
			if r := w.Step(w.Pairs[i]); r.Panic != nil {
				rt.Fatalf("VERIF-VIOLATION property=C14 Converge panicked: %v", r.Panic)
			}
		}
		for i := 0; i < 5; i++ {
			w.Step(w.Pairs[0])
			w.Step(w.Pairs[1])
		}
		for _, p := range w.Pairs {
			if c := w.Cursor(p); !c.OK || c.Num != 3 {
				rt.Fatalf("VERIF-VIOLATION property=C14 %s does not reach the head (%s) A=%v(event=%v) B=%v(event=%v)", p.Key(), curStr(c), setA, evA, setB, evB)
			}
			if v := w.CheckPair(p); v != "" {
				rt.Fatalf("VERIF-VIOLATION property=C14 %s\n A=%v(event=%v) B=%v(event=%v) order=%v", v, setA, evA, setB, evB, order)
			}
		}
		ev.Case(true, fmt.Sprintf("%v/%v %v/%v %v", evA, setA, evB, setB, order), fmt.Sprintf("sameContext=%v", evA == evB))
		ev.Sample(2, map[string]any{"A": setA, "A_event": evA, "B": setB, "B_event": evB, "step_order": order})
	})
}
