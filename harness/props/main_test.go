package props

import (
	"fmt"
	"io"
	"log"
	"log/slog"
	"os"
	"pgregory.net/rapid"
	"strconv"
	"testing"

	"verifharness/evid"
	"verifharness/kf"
)

func TestMain(m *testing.M) {
	if os.Getenv("VERIF_SHOVEL_LOG") == "" {
		slog.SetDefault(slog.New(slog.NewTextHandler(io.Discard, nil)))
		log.SetOutput(io.Discard)
	}
	code := m.Run()
	evid.Flush()
	os.Exit(code)
}

// shard returns (index, count) of this process within its unit.
func shard() (int, int) {
	i, _ := strconv.Atoi(os.Getenv("VERIF_SHARD"))
	n, _ := strconv.Atoi(os.Getenv("VERIF_NSHARDS"))
	if n <= 0 {
		n = 1
	}
	return i, n
}

func thorough() bool { return os.Getenv("VERIF_TIER") == "thorough" }

// scale picks a size by tier.
func scale(quick, thor int) int {
	if thorough() {
		return thor
	}
	return quick
}

// catch runs f and returns the recovered panic value, if any.
func catch(f func()) (p any) {
	defer func() { p = recover() }()
	f()
	return nil
}

// knownFinding implements the protocol of DESIGN.md §2 for one listed finding:
// repro returns a non-empty description when the defect is still present.
//   - open   + still present  -> "KNOWN-FINDING:" line, test passes
//   - open   + gone           -> note only (entry may be moved to fixed)
//   - fixed  + present again  -> test fails (violation)
//   - not listed + present    -> test fails (violation)
func knownFinding(t *testing.T, prop, id string, repro func() string) {
	t.Helper()
	got := repro()
	f, listed := kf.Get(id)
	switch {
	case got == "":
		if listed && f.Status == "open" {
			fmt.Printf("NOTE: open known finding %s no longer reproduces\n", id)
		}
	case listed && f.Status == "open":
		fmt.Printf("KNOWN-FINDING: property=%s id=%s %s\n", prop, id, f.What)
	default:
		t.Fatalf("VERIF-VIOLATION property=%s regression=%s: %s", prop, id, got)
	}
}

// noFail adapts *testing.T for rapid.Check inside a known-finding repro: a
// failure is captured as text instead of failing the test.
type noFail struct {
	t   *testing.T
	out *string
}

func (n noFail) Helper()                           {}
func (n noFail) Name() string                      { return n.t.Name() }
func (n noFail) Logf(format string, args ...any)   {}
func (n noFail) Log(args ...any)                   {}
func (n noFail) Skipf(format string, args ...any)  {}
func (n noFail) Skip(args ...any)                  {}
func (n noFail) SkipNow()                          {}
func (n noFail) Errorf(format string, args ...any) { *n.out = fmt.Sprintf(format, args...) }
func (n noFail) Error(args ...any)                 { *n.out = fmt.Sprint(args...) }
func (n noFail) Fatalf(format string, args ...any) { *n.out = fmt.Sprintf(format, args...) }
func (n noFail) Fatal(args ...any)                 { *n.out = fmt.Sprint(args...) }
func (n noFail) FailNow()                          {}
func (n noFail) Fail()                             {}
func (n noFail) Failed() bool                      { return *n.out != "" }

// drawActions draws the length of a history. The quick tier mostly keeps histories
// short (many small cases), but one case in eight is as long as in the thorough
// tier: the two defects the first thorough sweep found needed more than 16 actions.
func drawActions(rt *rapid.T, lo, quick, thor int) int {
	hi := scale(quick, thor)
	if !thorough() && rapid.IntRange(0, 7).Draw(rt, "longhistory") == 0 {
		hi = thor
	}
	return rapid.IntRange(lo, hi).Draw(rt, "nactions")
}
