package props

import (
	"fmt"
	"os"
	"strconv"
	"testing"

	"verifharness/evid"
	"verifharness/kf"
)

func TestMain(m *testing.M) {
	code := m.Run()
	evid.Flush()
	os.Exit(code)
}

// shard returns (index, count) of this process within its unit.
func shard() (int, int) {
	i, _ := strconv.Atoi(os.Getenv("VERIF_SHARD"))
	n, _ := strconv.Atoi(os.Getenv("VERIF_NSHARDS"))
	if n <= 0 {
		n = 1
	}
	return i, n
}

func thorough() bool { return os.Getenv("VERIF_TIER") == "thorough" }

// scale picks a size by tier.
func scale(quick, thor int) int {
	if thorough() {
		return thor
	}
	return quick
}

// catch runs f and returns the recovered panic value, if any.
func catch(f func()) (p any) {
	defer func() { p = recover() }()
	f()
	return nil
}

// knownFinding implements the protocol of DESIGN.md §2 for one listed finding:
// repro returns a non-empty description when the defect is still present.
//   - open   + still present  -> "KNOWN-FINDING:" line, test passes
//   - open   + gone           -> note only (entry may be moved to fixed)
//   - fixed  + present again  -> test fails (violation)
//   - not listed + present    -> test fails (violation)
func knownFinding(t *testing.T, prop, id string, repro func() string) {
	t.Helper()
	got := repro()
	f, listed := kf.Get(id)
	switch {
	case got == "":
		if listed && f.Status == "open" {
			fmt.Printf("NOTE: open known finding %s no longer reproduces\n", id)
		}
	case listed && f.Status == "open":
		fmt.Printf("KNOWN-FINDING: property=%s id=%s %s\n", prop, id, f.What)
	default:
		t.Fatalf("VERIF-VIOLATION property=%s regression=%s: %s", prop, id, got)
	}
}
