package props

// C19 — dashboard pages that change configuration require authentication.

import (
	"bytes"
	"context"
	"encoding/json"
	"fmt"
	"io"
	"log/slog"
	"net"
	"net/http"
	"net/http/httptest"
	"net/url"
	"os"
	"os/exec"
	"path/filepath"
	"regexp"
	"strings"
	"sync"
	"sync/atomic"
	"testing"
	"time"

	"github.com/indexsupply/shovel/shovel"
	"github.com/indexsupply/shovel/shovel/config"
	"github.com/indexsupply/shovel/shovel/web"
	"github.com/indexsupply/shovel/wos"
	"github.com/jackc/pgx/v5/pgtype"

	"verifharness/evid"
	"verifharness/fakepg"
)

type c19Addr struct {
	addr     string
	loopback bool
}

var c19Addrs = []c19Addr{
	{"127.0.0.1:4711", true}, {"127.8.9.10:80", true}, {"[::1]:4711", true}, {"[::ffff:127.0.0.1]:99", true},
	{"10.0.0.5:4711", false}, {"192.168.1.7:1", false}, {"172.16.0.1:22", false}, {"8.8.8.8:53", false}, {"[2001:db8::1]:443", false}, {"[::ffff:10.0.0.1]:9", false},
	{"[2001:db8:0:1::7f00:1]:443", false}, {"[fe80::7f00:1]:80", false}, {"[::7f00:1]:9", false}, {"[64:ff9b::7f00:1]:1", false},
	{"garbage", false}, {"127.0.0.1", false}, {"", false}, {"localhost:80", false}, {"::1", false},
}

// request headers by which a client (or a proxy it talks through) may claim an address
var c19Forwarded = []map[string]string{
	nil,
	{"X-Forwarded-For": "127.0.0.1"},
	{"X-Forwarded-For": "::1, 8.8.8.8"},
	{"X-Real-Ip": "127.0.0.1", "Forwarded": "for=127.0.0.1"},
	{"X-Forwarded-For": "127.0.0.1, 10.0.0.1", "X-Forwarded-Host": "localhost"},
}

// login performs a POST /login and returns the session cookies.
func c19Login(h *web.Handler, addr, password string, method string) (*httptest.ResponseRecorder, []*http.Cookie) {
	form := url.Values{"password": {password}}
	r := httptest.NewRequest(method, "/login", strings.NewReader(form.Encode()))
	r.Header.Set("Content-Type", "application/x-www-form-urlencoded")
	r.RemoteAddr = addr
	w := httptest.NewRecorder()
	h.Login(w, r)
	return w, w.Result().Cookies()
}

// capture the generated password, which the handler only logs
type logCapture struct{ buf bytes.Buffer }

var pwRe = regexp.MustCompile(`password=(\S+)`)

func withGeneratedPassword(f func()) string {
	var lc logCapture
	old := slog.Default()
	slog.SetDefault(slog.New(slog.NewTextHandler(&lc.buf, nil)))
	defer slog.SetDefault(old)
	f()
	if m := pwRe.FindStringSubmatch(lc.buf.String()); m != nil {
		return strings.Trim(m[1], `"`)
	}
	return ""
}

// TestC19_DecisionTable: the exhaustive product in process.
func TestC19_DecisionTable(t *testing.T) {
	ev := evid.For("C19", "DecisionTable")
	methods := []string{"GET", "POST", "PUT", "DELETE", "HEAD", "OPTIONS", "PATCH"}
	n := 0
	for _, disable := range []bool{false, true} {
		for _, enforceLoopback := range []bool{false, true} {
			// configured passwords: an ordinary one, and ones in which white space is part of
			// (or all of) the secret; "" = none configured (a random one is generated)
			for _, cfgPw := range []string{"s3cret-pw", "", " ", "\n", " pw ", "pw\n"} {
				configured := cfgPw != ""
				conf := &config.Root{}
				conf.Dashboard.DisableAuthn = disable
				conf.Dashboard.EnableLoopbackAuthn = enforceLoopback
				if configured {
					conf.Dashboard.RootPassword = wos.EnvString(cfgPw)
				}
				// a handler whose login page has never been rendered: wrong passwords (empty,
				// absent, arbitrary) are wrong from the first request on
				fresh := web.New(nil, conf, nil)
				for _, a := range []string{"8.8.8.8:1", "127.0.0.1:5", "10.0.0.5:9"} {
					for gi, body := range []string{"password=", "", "password=x", "passwor=s3cret-pw", "password=%00"} {
						r := httptest.NewRequest("POST", "/login", strings.NewReader(body))
						r.Header.Set("Content-Type", "application/x-www-form-urlencoded")
						r.RemoteAddr = a
						w := httptest.NewRecorder()
						fresh.Login(w, r)
						n++
						ev.Case(true, fmt.Sprintf("fresh-login %v %v %v %d %s", disable, enforceLoopback, configured, gi, a), "login-before-any-page-view")
						for _, c := range w.Result().Cookies() {
							if c.Name == "session" && c.Value != "" {
								t.Fatalf("VERIF-VIOLATION property=C19 first request POST /login from %s with body %q (a wrong password) issued a session (status %d); switches disable=%v loopback_enforced=%v configured_pw=%v", a, body, w.Code, disable, enforceLoopback, configured)
							}
						}
					}
				}
				h := web.New(nil, conf, nil)
				other := web.New(nil, conf, nil) // "another process": same configuration, own session key
				password := cfgPw
				if !configured {
					password = withGeneratedPassword(func() { c19Login(h, "8.8.8.8:1", "x", "GET") })
					if password == "" {
						t.Fatalf("VERIF-INCONCLUSIVE could not read the generated password from the log")
					}
				}
				// ---- login attempts
				guesses := []struct {
					pw    string
					right bool
				}{{password, true}, {"", false}, {password[:len(password)-1], false}, {password + "x", false}, {password + "\x00", false}, {strings.ToUpper(password), strings.ToUpper(password) == password},
					{" " + password, false}, {"wrong", false}, {strings.Repeat("a", 200), false},
					{strings.TrimSpace(password), strings.TrimSpace(password) == password}, {password + "\n", false}}
				var goodCookies []*http.Cookie
				for _, g := range guesses {
					for _, a := range []string{"8.8.8.8:1", "127.0.0.1:5"} {
						for _, m := range []string{"POST", "GET", "PUT"} {
							w, cookies := c19Login(h, a, g.pw, m)
							n++
							issued := false
							for _, c := range cookies {
								if c.Name == "session" && c.Value != "" {
									issued = true
								}
							}
							wantIssue := g.right && m == "POST"
							ev.Case(!wantIssue, fmt.Sprintf("login %v %v %v %q %s %s", disable, enforceLoopback, configured, g.pw, a, m), "login")
							if issued != wantIssue {
								t.Fatalf("VERIF-VIOLATION property=C19 login %s from %s with password %q (right=%v): session issued=%v (status %d); switches disable=%v loopback_enforced=%v configured_pw=%v", m, a, g.pw, g.right, issued, w.Code, disable, enforceLoopback, configured)
							}
							if wantIssue && a == "8.8.8.8:1" {
								goodCookies = cookies
							}
						}
					}
				}
				if len(goodCookies) == 0 {
					t.Fatalf("VERIF-VIOLATION property=C19 the right password did not yield a session")
				}
				_, otherCookies := c19Login(other, "8.8.8.8:1", func() string {
					if configured {
						return password
					}
					return withGeneratedPassword(func() { c19Login(other, "8.8.8.8:1", "x", "GET") })
				}(), "POST")
				// whatever a refused (not logged in) request got back as cookies is not a session
				var bounceCookies []*http.Cookie
				if !disable {
					for _, path := range []string{"/add-source", "/save-integration"} {
						probe := h.Authn(func(w http.ResponseWriter, r *http.Request) { w.WriteHeader(204) })
						r := httptest.NewRequest("GET", path, nil)
						r.RemoteAddr = "8.8.8.8:1"
						w := httptest.NewRecorder()
						probe.ServeHTTP(w, r)
						bounceCookies = append(bounceCookies, w.Result().Cookies()...)
					}
				}
				cookieStates := []struct {
					name    string
					cookies []*http.Cookie
					valid   bool
				}{
					{"none", nil, false},
					{"garbage", []*http.Cookie{{Name: "session", Value: "Z2FyYmFnZQ=="}}, false},
					{"empty", []*http.Cookie{{Name: "session", Value: ""}}, false},
					{"other-name", []*http.Cookie{{Name: "sess", Value: goodCookies[0].Value}}, false},
					{"this-process", goodCookies, true},
					{"truncated", []*http.Cookie{{Name: "session", Value: goodCookies[0].Value[:len(goodCookies[0].Value)/2]}}, false},
					{"other-process", otherCookies, false},
					{"handed-out-with-the-redirect-to-login", bounceCookies, false},
				}
				for _, a := range c19Addrs {
					for _, cs := range cookieStates {
						for _, m := range methods {
							for _, fw := range c19Forwarded {
								ran := false
								probe := h.Authn(func(w http.ResponseWriter, r *http.Request) { ran = true; w.WriteHeader(204) })
								r := httptest.NewRequest(m, "/save-integration", strings.NewReader("{}"))
								r.RemoteAddr = a.addr
								// client-controlled headers that name an address never count: the peer address does
								for k, v := range fw {
									r.Header.Set(k, v)
								}
								for _, c := range cs.cookies {
									r.AddCookie(c)
								}
								w := httptest.NewRecorder()
								probe.ServeHTTP(w, r)
								n++
								want := disable || (!enforceLoopback && a.loopback) || cs.valid
								desc := fmt.Sprintf("disable=%v loopback_enforced=%v configured_pw=%v addr=%q cookie=%s method=%s headers=%v", disable, enforceLoopback, configured, a.addr, cs.name, m, fw)
								// non-trivial: the session or the address decides (not the disable switch)
								ev.Case(!disable, desc, fmt.Sprintf("served=%v", want))
								if !disable && cs.name == "other-process" && ev.WantSample(4) {
									ev.Sample(4, desc)
								}
								if ran != want {
									t.Fatalf("VERIF-VIOLATION property=C19 %s: protected handler ran=%v, want %v (status %d)", desc, ran, want, w.Code)
								}
								if !want {
									if loc := w.Header().Get("Location"); w.Code/100 != 3 || loc != "/login" {
										t.Fatalf("VERIF-VIOLATION property=C19 %s: refused request answered with status %d Location %q instead of a redirect to /login", desc, w.Code, loc)
									}
								}
							}
						}
					}
				}
			}
		}
	}
	ev.Set("exhaustive_decision_table", true)
	t.Logf("requests: %d", n)
}

// ---- the real binary -----------------------------------------------------------

func registerDashboardScripts(srv *fakepg.Server) {
	srv.RegisterScript(shovel.Schema, fakepg.Script{Tag: "DO", Run: func(db *fakepg.DB) error { db.ApplyShovelSchema(); return nil }})
	num, bya, txt, iv := uint32(pgtype.NumericOID), uint32(pgtype.ByteaOID), uint32(pgtype.TextOID), uint32(pgtype.IntervalOID)
	srv.RegisterScript(`with f as ( select src_name, ig_name, max(num) num from shovel.task_updates group by 1, 2 ) select f.src_name, f.ig_name, f.num, coalesce(stop, 0) stop, hash, coalesce(src_num, 0) src_num, coalesce(src_hash, '\x00') src_hash, coalesce(nblocks, 0) nblocks, coalesce(nrows, 0) nrows, coalesce(latency, '0')::interval latency from f left join shovel.task_updates on shovel.task_updates.src_name = f.src_name and shovel.task_updates.ig_name= f.ig_name and shovel.task_updates.num = f.num;`,
		fakepg.Script{Tag: "SELECT 0", Fields: []fakepg.ScriptField{{"src_name", txt}, {"ig_name", txt}, {"num", num}, {"stop", num}, {"hash", bya}, {"src_num", num}, {"src_hash", bya}, {"nblocks", num}, {"nrows", num}, {"latency", iv}}})
	srv.RegisterScript(`select * from shovel.source_updates`, fakepg.Script{Tag: "SELECT 0", Fields: []fakepg.ScriptField{{"src_name", txt}, {"num", num}, {"hash", bya}, {"src_num", num}, {"src_hash", bya}, {"nblocks", num}, {"nrows", num}, {"latency", iv}}})
	srv.RegisterScript(`delete from shovel.task_updates where (src_name, ig_name, num) not in ( select src_name, ig_name, num from ( select src_name, ig_name, num, row_number() over(partition by src_name, ig_name order by num desc) as rn from shovel.task_updates ) as s where rn <= $1 )`,
		fakepg.Script{Tag: "DELETE 0", Params: []uint32{pgtype.Int8OID}})
}

func freePort() int {
	l, _ := net.Listen("tcp", "127.0.0.1:0")
	defer l.Close()
	return l.Addr().(*net.TCPAddr).Port
}

// TestC19_Binary: the routes as registered by cmd/shovel.
func TestC19_Binary(t *testing.T) {
	ev := evid.For("C19", "Binary")
	pg, _ := env()
	registerDashboardScripts(pg)
	dir := t.TempDir()
	bin := filepath.Join(dir, "shovel")
	repo := os.Getenv("VERIF_REPO")
	if repo == "" {
		repo = "/repo"
	}
	build := exec.Command("go", "build", "-o", bin, "./cmd/shovel")
	build.Dir = repo
	build.Env = append(os.Environ(), "GOFLAGS=-mod=mod")
	if out, err := build.CombinedOutput(); err != nil {
		t.Fatalf("VERIF-INCONCLUSIVE go build ./cmd/shovel: %v\n%s", err, out)
	}
	dbName := fmt.Sprintf("dash%d", dbSeq.Add(1))
	db := pg.NewDB(dbName)
	db.KeepEvents = true
	defer pg.DropDB(dbName)
	port := freePort()
	cfg := fmt.Sprintf(`{"pg_url": %q, "dashboard": {"enable_loopback_authn": true, "root_password": "binpw"}, "eth_sources": [], "integrations": []}`, pg.URL(dbName))
	cfile := filepath.Join(dir, "config.json")
	os.WriteFile(cfile, []byte(cfg), 0o600)
	ctx, cancel := context.WithCancel(context.Background())
	defer cancel()
	cmd := exec.CommandContext(ctx, bin, "-config", cfile, "-l", fmt.Sprintf("127.0.0.1:%d", port))
	var out bytes.Buffer
	cmd.Stdout, cmd.Stderr = &out, &out
	cmd.Dir = dir
	if err := cmd.Start(); err != nil {
		t.Fatalf("VERIF-INCONCLUSIVE start: %v", err)
	}
	defer func() { cancel(); cmd.Wait() }()
	base := fmt.Sprintf("http://127.0.0.1:%d", port)
	client := &http.Client{CheckRedirect: func(*http.Request, []*http.Request) error { return http.ErrUseLastResponse }, Timeout: 5 * time.Second}
	up := false
	for i := 0; i < 200; i++ {
		if resp, err := client.Get(base + "/login"); err == nil {
			resp.Body.Close()
			up = true
			break
		}
		time.Sleep(25 * time.Millisecond)
	}
	if !up {
		t.Fatalf("VERIF-INCONCLUSIVE the binary did not start listening; output:\n%s\nunrecognised SQL: %v", out.String(), db.Unrecognised())
	}
	time.Sleep(100 * time.Millisecond)
	writes := func() int {
		n := 0
		for _, e := range db.Events() {
			if (e.Kind == "exec" || e.Kind == "sql" || e.Kind == "parse") && (strings.Contains(e.SQL, "insert into") || strings.Contains(e.SQL, "select name, chain_id, url")) {
				n++
			}
		}
		return n
	}
	// (/task-updates streams: when it is reached without a session nothing returns; it is probed last)
	protected := []string{"/add-source", "/save-source", "/add-integration", "/save-integration", "/task-updates"}
	for _, route := range protected {
		for _, m := range []string{"GET", "POST"} {
			before := writes()
			body := io.Reader(nil)
			if m == "POST" {
				body = strings.NewReader(`{"name":"x","enabled":true,"table":{"name":"x","columns":[]}}`)
			}
			req, _ := http.NewRequest(m, base+route, body)
			allBefore := len(db.Events())
			resp, err := client.Do(req)
			if err != nil {
				// no answer within the client's time-out: a redirect is immediate, so something else is
				// running; if it talked to the database meanwhile it is the protected handler
				if n := len(db.Events()) - allBefore; n > 0 {
					t.Fatalf("VERIF-VIOLATION property=C19 %s %s without a session (loopback client, loopback authentication enforced): no redirect; the request did not return (%v) and %d database events were caused meanwhile: the protected handler is running", m, route, err, n)
				}
				t.Fatalf("VERIF-INCONCLUSIVE request %s %s: %v", m, route, err)
			}
			resp.Body.Close()
			desc := fmt.Sprintf("%s %s without a session (loopback client, loopback authentication enforced)", m, route)
			ev.Case(true, desc, "protected")
			ev.Sample(3, desc)
			if resp.StatusCode/100 != 3 || resp.Header.Get("Location") != "/login" {
				t.Fatalf("VERIF-VIOLATION property=C19 %s: status %d Location %q, want a redirect to /login", desc, resp.StatusCode, resp.Header.Get("Location"))
			}
			time.Sleep(20 * time.Millisecond)
			if after := writes(); after != before {
				t.Fatalf("VERIF-VIOLATION property=C19 %s: the handler touched the database (%d statements)", desc, after-before)
			}
		}
	}
	for _, route := range []string{"/", "/login", "/diag", "/metrics"} {
		resp, err := client.Get(base + route)
		if err != nil {
			t.Fatalf("VERIF-INCONCLUSIVE request %s: %v", route, err)
		}
		resp.Body.Close()
		ev.Case(false, "GET "+route+" unprotected", "unprotected")
		if resp.StatusCode != 200 {
			t.Fatalf("VERIF-VIOLATION property=C19 unprotected route %s answered %d (output: %.400s)", route, resp.StatusCode, out.String())
		}
	}
	// wrong password: no session; right password: session opens the protected pages
	resp, err := client.PostForm(base+"/login", url.Values{"password": {"nope"}})
	if err != nil {
		t.Fatalf("VERIF-INCONCLUSIVE login: %v", err)
	}
	resp.Body.Close()
	if len(resp.Cookies()) != 0 || resp.StatusCode != 401 {
		t.Fatalf("VERIF-VIOLATION property=C19 wrong password: status %d cookies %d", resp.StatusCode, len(resp.Cookies()))
	}
	resp, err = client.PostForm(base+"/login", url.Values{"password": {"binpw"}})
	if err != nil {
		t.Fatalf("VERIF-INCONCLUSIVE login: %v", err)
	}
	resp.Body.Close()
	if len(resp.Cookies()) == 0 {
		t.Fatalf("VERIF-VIOLATION property=C19 right password did not issue a session (status %d)", resp.StatusCode)
	}
	req, _ := http.NewRequest("GET", base+"/add-source", nil)
	for _, c := range resp.Cookies() {
		req.AddCookie(c)
	}
	r2, err := client.Do(req)
	if err != nil {
		t.Fatalf("VERIF-INCONCLUSIVE: %v", err)
	}
	r2.Body.Close()
	ev.Case(true, "GET /add-source with a session", "protected")
	if r2.StatusCode != 200 {
		t.Fatalf("VERIF-VIOLATION property=C19 /add-source with a valid session answered %d", r2.StatusCode)
	}
	if u := db.Unrecognised(); len(u) > 0 {
		t.Logf("note: statements the fake did not recognise: %v", u)
	}
}

// TestC19_SwitchesFromJSON: the two dashboard switches as they arrive from a configuration
// file (decoded from JSON, not set on the struct): each combination must have its effect.
func TestC19_SwitchesFromJSON(t *testing.T) {
	ev := evid.For("C19", "SwitchesFromJSON")
	for _, disable := range []bool{false, true} {
		for _, enforce := range []bool{false, true} {
			raw := fmt.Sprintf(`{"pg_url":"x","dashboard":{"root_password":"s3cret-pw","disable_authn":%v,"enable_loopback_authn":%v}}`, disable, enforce)
			var conf config.Root
			if err := json.Unmarshal([]byte(raw), &conf); err != nil {
				t.Fatalf("VERIF-INCONCLUSIVE config decode: %v", err)
			}
			h := web.New(nil, &conf, nil)
			for _, a := range []c19Addr{{"127.0.0.1:5", true}, {"[::1]:5", true}, {"8.8.8.8:5", false}, {"10.1.2.3:5", false}} {
				ran := false
				probe := h.Authn(func(w http.ResponseWriter, r *http.Request) { ran = true; w.WriteHeader(204) })
				r := httptest.NewRequest("GET", "/add-source", nil)
				r.RemoteAddr = a.addr
				w := httptest.NewRecorder()
				probe.ServeHTTP(w, r)
				want := disable || (!enforce && a.loopback)
				desc := fmt.Sprintf("file config disable_authn=%v enable_loopback_authn=%v addr=%s", disable, enforce, a.addr)
				ev.Case(!disable, desc, fmt.Sprintf("served=%v", want))
				ev.Sample(4, desc)
				if ran != want {
					t.Fatalf("VERIF-VIOLATION property=C19 %s: protected handler ran=%v, want %v (status %d)", desc, ran, want, w.Code)
				}
			}
		}
	}
}

// TestC19_ConcurrentLogins: right and wrong passwords are submitted at the same time
// (operators logging in while someone guesses); a wrong password never yields a session,
// whatever else is in flight.
func TestC19_ConcurrentLogins(t *testing.T) {
	ev := evid.For("C19", "ConcurrentLogins")
	for _, cfgPw := range []string{"s3cret-pw", "another-secret-of-other-length"} {
		conf := &config.Root{}
		conf.Dashboard.RootPassword = wos.EnvString(cfgPw)
		h := web.New(nil, conf, nil)
		const workers, rounds = 8, 1500
		var wg sync.WaitGroup
		var bad atomic.Value
		var wrongTried, rightOK atomic.Int64
		for g := 0; g < workers; g++ {
			wg.Add(1)
			go func(g int) {
				defer wg.Done()
				for i := 0; i < rounds; i++ {
					pw, right := cfgPw, true
					if g%2 == 1 {
						// same length as the real one, and shorter / longer ones
						pw, right = strings.Repeat("x", len(cfgPw)-i%3), false
					}
					_, cookies := c19Login(h, "8.8.8.8:1", pw, "POST")
					issued := false
					for _, c := range cookies {
						if c.Name == "session" && c.Value != "" {
							issued = true
						}
					}
					switch {
					case !right && issued:
						bad.Store(fmt.Sprintf("wrong password %q got a session while %d other logins were in flight", pw, workers-1))
						return
					case right && !issued:
						bad.Store(fmt.Sprintf("the right password was refused while other logins were in flight"))
						return
					case right:
						rightOK.Add(1)
					default:
						wrongTried.Add(1)
					}
				}
			}(g)
		}
		wg.Wait()
		if v := bad.Load(); v != nil {
			t.Fatalf("VERIF-VIOLATION property=C19 %v", v)
		}
		ev.Case(true, cfgPw, fmt.Sprintf("workers=%d", workers))
		ev.LabelN("wrong-guesses-refused", wrongTried.Load())
		ev.LabelN("right-logins", rightOK.Load())
		ev.Sample(2, map[string]any{"password_len": len(cfgPw), "workers": workers, "logins_per_worker": rounds})
	}
}

// TestC19_PasswordFromJSON: the configured root password is the string the file holds —
// characters that mean something to a shell or a template ($, {, %, \) included — and
// nothing that merely resembles it (the same string with $words expanded or removed) opens
// a session. (A value that STARTS with $ names an environment variable: documented, not used here.)
func TestC19_PasswordFromJSON(t *testing.T) {
	ev := evid.For("C19", "PasswordFromJSON")
	issued := func(cs []*http.Cookie) bool {
		for _, c := range cs {
			if c.Name == "session" && c.Value != "" {
				return true
			}
		}
		return false
	}
	os.Setenv("C19_SET", "value")
	defer os.Unsetenv("C19_SET")
	for _, pw := range []string{"plain-pw", "Tr0ub4dor$3cret", "pa$$w0rd", "a${HOME}b", "a${C19_SET}b", "mid$C19_SET-x", "mid$C19_UNSET-x", "end$", "100%s", `back\slash`, `quo"te`, "a&b<c>", "{{.}}", "sp ace"} {
		b, _ := json.Marshal(map[string]any{"pg_url": "x", "dashboard": map[string]any{"root_password": pw}})
		var conf config.Root
		if err := json.Unmarshal(b, &conf); err != nil {
			t.Fatalf("VERIF-INCONCLUSIVE config decode: %v", err)
		}
		h := web.New(nil, &conf, nil)
		special := strings.ContainsAny(pw, `$%\{`)
		ev.Case(special, "configured password "+pw, fmt.Sprintf("special=%v", special))
		if special {
			ev.Sample(4, "configured password "+pw)
		}
		// (whether the configured string itself is accepted is availability, not this property: noted only)
		_, cs0 := c19Login(h, "8.8.8.8:1", pw, "POST")
		ev.Case(false, "configured accepted "+pw, fmt.Sprintf("configuredAccepted=%v", issued(cs0)))
		rawJSON, _ := json.Marshal(pw)
		raw := string(rawJSON[1 : len(rawJSON)-1]) // the spelling inside the file
		wrong := map[string]bool{raw: true, os.ExpandEnv(pw): true, os.Expand(pw, func(string) string { return "" }): true, strings.ReplaceAll(pw, "$", ""): true, pw + "x": true, pw[:len(pw)-1]: true}
		delete(wrong, pw)
		for g := range wrong {
			ev.Case(true, "configured "+pw+" guess "+g, "wrong-guess")
			if _, cs := c19Login(h, "8.8.8.8:1", g, "POST"); issued(cs) {
				t.Fatalf("VERIF-VIOLATION property=C19 password %q opens a session although the file configures %q (configured string accepted: %v)", g, pw, issued(cs0))
			}
		}
	}
}
