//go:build verif

package props

// C20 — the manager runs exactly the configured tasks, one runner each, across restarts.

import (
	"context"
	"encoding/json"
	"fmt"
	"sort"
	"strings"
	"sync"
	"testing"
	"time"

	"github.com/indexsupply/shovel/shovel"
	"github.com/indexsupply/shovel/shovel/config"
	"github.com/jackc/pgx/v5/pgxpool"
	"pgregory.net/rapid"

	"verifharness/evid"
	"verifharness/fakepg"
	"verifharness/refmodel"
	"verifharness/sim"
)

type c20Src struct {
	name        string
	chainID     uint64
	batch, conc int
	inFile      bool
	inDB        bool
	node        *sim.Node
	url         string
	former      []*sim.Node // endpoints the stored definition named before it was edited
}

type c20Ig struct {
	name    string
	enabled bool
	srcs    []refmodel.SourceRef
	where   string // "file" | "db"
}

func (i c20Ig) decl() *refmodel.Decl {
	d := simpleTxDecl(i.name, 1)
	d.Table = strings.ReplaceAll(i.name, "-", "_")
	d.Enabled = i.enabled
	d.Sources = i.srcs
	return d
}

type c20Expect struct {
	err   bool
	tasks []string // "src/ig start stop batch conc"
}

// c20Model: the task set the statement prescribes.
func c20Model(file, db []c20Ig, srcs []*c20Src) c20Expect {
	merged := map[string]c20Ig{}
	for _, i := range db {
		merged[i.name] = i
	}
	for _, i := range file {
		merged[i.name] = i // the file takes precedence on a name clash
	}
	byName := map[string]*c20Src{}
	for _, s := range srcs {
		if s.inDB {
			byName[s.name] = &c20Src{name: s.name, chainID: s.chainID, batch: 1, conc: 1}
		}
	}
	for _, s := range srcs {
		if s.inFile {
			byName[s.name] = s
		}
	}
	var e c20Expect
	names := make([]string, 0, len(merged))
	for n := range merged {
		names = append(names, n)
	}
	sort.Strings(names)
	for _, n := range names {
		ig := merged[n]
		if !ig.enabled {
			continue
		}
		for _, r := range ig.srcs {
			s := byName[r.Name]
			if s == nil {
				e.err = true
				continue
			}
			b, c := s.batch, s.conc
			if b <= 0 {
				b = 1
			}
			if c <= 0 {
				c = 1
			}
			e.tasks = append(e.tasks, fmt.Sprintf("%s/%s start=%d stop=%d batch=%d conc=%d chain=%d", s.name, ig.name, r.Start, r.Stop, b, c, s.chainID))
		}
	}
	sort.Strings(e.tasks)
	return e
}

func c20Observed(m *shovel.Manager) []string {
	var out []string
	for _, t := range m.VerifTasks() {
		out = append(out, fmt.Sprintf("%s/%s start=%d stop=%d batch=%d conc=%d chain=%d", t.SrcName, t.IGName, t.Start, t.Stop, t.BatchSize, t.Concurrency, t.ChainID))
	}
	sort.Strings(out)
	return out
}

// overlap scans the fake's event log for two open step-transactions of one pair.
func c20Overlap(events []fakepg.Event) string {
	open := map[int]string{} // conn -> pair ("" = not yet attributed)
	isOpen := map[int]bool{}
	for _, e := range events {
		switch {
		case e.Kind == "exec" && e.SQL == "begin":
			isOpen[e.Conn], open[e.Conn] = true, ""
		case e.Kind == "commit" || e.Kind == "rollback" || e.Kind == "disconnect" || (e.Kind == "exec" && (e.SQL == "commit" || e.SQL == "rollback")):
			isOpen[e.Conn] = false
			delete(open, e.Conn)
		case e.Kind == "exec" && isOpen[e.Conn] && open[e.Conn] == "":
			pair := ""
			switch {
			case strings.HasPrefix(e.SQL, "select num, hash from shovel.task_updates where src_name"), strings.HasPrefix(e.SQL, "delete from"):
				if len(e.Args) >= 2 {
					pair = fmt.Sprintf("%v/%v", e.Args[0], e.Args[1])
				}
			case strings.HasPrefix(e.SQL, "insert into shovel.task_updates"):
				if len(e.Args) >= 3 {
					pair = fmt.Sprintf("%v/%v", e.Args[1], e.Args[2])
				}
			}
			if pair == "" {
				continue
			}
			for c, p := range open {
				if c != e.Conn && p == pair && isOpen[c] {
					return fmt.Sprintf("two step transactions of %s are open at once (connections %d and %d, event #%d)", pair, c, e.Conn, e.Seq)
				}
			}
			open[e.Conn] = pair
		}
	}
	return ""
}

func c20Property(rt *rapid.T, ev *evid.Rec) {
	pg, ns := env()
	dbName := fmt.Sprintf("mgr%d", dbSeq.Add(1))
	db := pg.NewDB(dbName)
	db.KeepEvents = true
	db.ApplyShovelSchema()
	defer pg.DropDB(dbName)
	pool, err := pgxpool.New(context.Background(), pg.URL(dbName))
	if err != nil {
		rt.Fatalf("VERIF-INCONCLUSIVE pool: %v", err)
	}
	defer pool.Close()

	// ---- sources
	var srcs []*c20Src
	nsrc := rapid.IntRange(1, 3).Draw(rt, "nsrc")
	var gateMu sync.Mutex
	var gateArmed bool
	held := make(chan struct{}, 16)
	release := make(chan struct{})
	var gate func(n *sim.Node, ri sim.ReqInfo) *sim.Fault
	// names may contain dashes (the identifier rule allows them)
	dashed := nsrc >= 2 && rapid.IntRange(0, 2).Draw(rt, "dashednames") == 0
	for i := 0; i < nsrc; i++ {
		// two sources may serve the same chain (a head-following node and an archive node)
		sname := fmt.Sprintf("src%d", i+1)
		if i == 1 && dashed {
			sname = "src1-a" // "src1" + "a-igN" and "src1-a" + "igN" read the same when joined by a dash
		}
		s := &c20Src{name: sname, chainID: uint64(10 + i*rapid.IntRange(0, 1).Draw(rt, "ownchain")), batch: rapid.IntRange(0, 4).Draw(rt, "batch"), conc: rapid.IntRange(0, 3).Draw(rt, "conc")}
		switch rapid.IntRange(0, 3).Draw(rt, "srcwhere") {
		case 0:
			s.inDB = true
		case 1:
			s.inFile, s.inDB = true, true // clash: the file wins
		default:
			s.inFile = true
		}
		s.node = sim.NewNode(sim.NewChain())
		for b := 0; b < 4; b++ {
			s.node.Chain.Append(plainTx(b))
		}
		gate = func(n *sim.Node, ri sim.ReqInfo) *sim.Fault {
			gateMu.Lock()
			armed := gateArmed && (ri.Kind == "blocks" || ri.Kind == "headers")
			if armed {
				gateArmed = false
			}
			gateMu.Unlock()
			if armed {
				held <- struct{}{}
				<-release
			}
			return nil
		}
		s.node.OnRequest = gate
		s.url = ns.Attach(s.node, "")
		defer ns.Detach(s.url)
		srcs = append(srcs, s)
	}
	// many more source definitions that no integration uses (file, database, or both with other settings)
	type filler struct {
		name         string
		inFile, inDB bool
	}
	var fillers []filler
	if rapid.IntRange(0, 3).Draw(rt, "manysources") == 0 {
		for i := rapid.IntRange(8, 16).Draw(rt, "nfiller"); i > 0; i-- {
			f := filler{name: fmt.Sprintf("%c%d", 'a'+byte(rapid.IntRange(0, 25).Draw(rt, "fl")), i)}
			switch rapid.IntRange(0, 2).Draw(rt, "fwhere") {
			case 0:
				f.inFile = true
			case 1:
				f.inDB = true
			default:
				f.inFile, f.inDB = true, true
			}
			fillers = append(fillers, f)
		}
	}
	// ---- integrations
	var file, dbIgs []c20Ig
	nig := rapid.IntRange(1, 4).Draw(rt, "nig")
	unknownRef, clash := false, false
	mkIg := func(name, where string) c20Ig {
		ig := c20Ig{name: name, enabled: rapid.IntRange(0, 3).Draw(rt, "enabled") != 0, where: where}
		for _, s := range srcs {
			if rapid.Bool().Draw(rt, "onsrc") {
				ig.srcs = append(ig.srcs, refmodel.SourceRef{Name: s.name, Start: uint64(rapid.IntRange(1, 3).Draw(rt, "start")), Stop: 4})
			}
		}
		if rapid.IntRange(0, 7).Draw(rt, "unknownsrc") == 0 {
			ig.srcs = append(ig.srcs, refmodel.SourceRef{Name: "nosuchsource", Start: 1, Stop: 4})
		}
		return ig
	}
	// one stored integration without a stop: its runner never ends by itself (as in production)
	forever := rapid.IntRange(0, 2).Draw(rt, "forever") == 0
	if forever {
		f := c20Ig{name: "forever", enabled: true, where: "db"}
		f.srcs = append(f.srcs, refmodel.SourceRef{Name: srcs[0].name, Start: 1, Stop: 0})
		dbIgs = append(dbIgs, f)
	}
	for i := 0; i < nig; i++ {
		name := fmt.Sprintf("ig%d", i+1)
		if dashed {
			name = fmt.Sprintf("ig%d", i/2+1)
			if i%2 == 1 {
				name = "a-" + name
			}
		}
		switch rapid.IntRange(0, 3).Draw(rt, "igwhere") {
		case 0:
			dbIgs = append(dbIgs, mkIg(name, "db"))
		case 1:
			dbIgs = append(dbIgs, mkIg(name, "db"))
			file = append(file, mkIg(name, "file"))
			clash = true
		default:
			file = append(file, mkIg(name, "file"))
		}
	}
	// ---- build the file configuration through shovel's own loader
	var srcJSON, igJSON []any
	for _, s := range srcs {
		if s.inFile {
			srcJSON = append(srcJSON, map[string]any{"name": s.name, "chain_id": s.chainID, "url": s.url, "batch_size": s.batch, "concurrency": s.conc, "poll_duration": "20ms"})
		}
	}
	for _, f := range fillers {
		if f.inFile {
			srcJSON = append(srcJSON, map[string]any{"name": f.name, "chain_id": 900, "url": "http://127.0.0.1:9/unused", "batch_size": 7, "concurrency": 2, "poll_duration": "1h"})
		}
	}
	for _, i := range file {
		igJSON = append(igJSON, i.decl().JSON())
	}
	raw, _ := json.Marshal(map[string]any{"pg_url": pg.URL(dbName), "eth_sources": srcJSON, "integrations": igJSON})
	var conf config.Root
	if err := json.Unmarshal(raw, &conf); err != nil {
		rt.Fatalf("VERIF-INCONCLUSIVE config: %v", err)
	}
	if err := config.ValidateFix(&conf); err != nil {
		rt.Fatalf("VERIF-INCONCLUSIVE ValidateFix: %v", err)
	}
	if err := config.Migrate(context.Background(), pool, conf); err != nil {
		rt.Fatalf("VERIF-INCONCLUSIVE Migrate: %v", err)
	}
	store := func(i c20Ig) {
		// as the dashboard stores it: the integration's JSON (complete: required fields included)
		one := config.Root{}
		b, _ := json.Marshal(map[string]any{"integrations": []any{i.decl().JSON()}})
		json.Unmarshal(b, &one)
		config.ValidateFix(&one)
		config.Migrate(context.Background(), pool, one)
		cj, _ := json.Marshal(one.Integrations[0])
		if _, err := pool.Exec(context.Background(), `insert into shovel.integrations(name, conf) values ($1, $2)`, i.name, cj); err != nil {
			rt.Fatalf("VERIF-INCONCLUSIVE storing integration: %v", err)
		}
	}
	for _, i := range dbIgs {
		store(i)
	}
	for _, s := range srcs {
		if s.inDB {
			// a stored definition that clashes with a file entry is stale: other chain id, unreachable URL
			cid, u := int(s.chainID), s.url
			if s.inFile {
				cid, u = cid+100, "http://127.0.0.1:9/stale"
			}
			if _, err := pool.Exec(context.Background(), `insert into shovel.sources(chain_id, name, url) values ($1, $2, $3)`, cid, s.name, u); err != nil {
				rt.Fatalf("VERIF-INCONCLUSIVE storing source: %v", err)
			}
		}
	}
	for _, f := range fillers {
		if f.inDB {
			if _, err := pool.Exec(context.Background(), `insert into shovel.sources(chain_id, name, url) values ($1, $2, $3)`, 901, f.name, "http://127.0.0.1:9/unused-db"); err != nil {
				rt.Fatalf("VERIF-INCONCLUSIVE storing source: %v", err)
			}
		}
	}
	for _, i := range append(append([]c20Ig{}, file...), dbIgs...) {
		for _, r := range i.srcs {
			if r.Name == "nosuchsource" {
				unknownRef = true
			}
		}
	}
	// every source resolves to its own definition and its own endpoints (the file wins a name clash)
	if byName, err := conf.AllSourcesByName(context.Background(), pool); err == nil {
		for _, sx := range srcs {
			got, ok := byName[sx.name]
			want := []string{sx.url}
			if sx.inDB && !sx.inFile {
				want = []string{sx.url}
			}
			if !ok || strings.Join(got.URLs, " ") != strings.Join(want, " ") {
				rt.Fatalf("VERIF-VIOLATION property=C20 source %s resolves to URLs %v, configured %v (file=%v db=%v)", sx.name, got.URLs, want, sx.inFile, sx.inDB)
			}
		}
	}
	mgr := shovel.NewManager(context.Background(), pool, conf)
	fail := func(f string, a ...any) {
		rt.Fatalf("VERIF-VIOLATION property=C20 %s\n file=%+v\n db=%+v", fmt.Sprintf(f, a...), file, dbIgs)
	}
	var hist []string
	checkGen := func(what string, gotErr error) {
		want := c20Model(file, dbIgs, srcs)
		hist = append(hist, fmt.Sprintf("%s -> err=%v", what, gotErr != nil))
		if want.err {
			if gotErr == nil {
				fail("%s: an enabled integration references an unknown source but no error was reported (tasks: %v)", what, c20Observed(mgr))
			}
			// the failed generation is over: it must not keep the run lock, or the next
			// restart (after the operator repaired the configuration) blocks forever.
			// (The lock is released a moment after the error is delivered; a generation
			// that never releases it is what is looked for. 10 s is the search budget.)
			idle := false
			for i := 0; i < 10000 && !idle; i++ {
				if idle = mgr.VerifIdle(); !idle {
					time.Sleep(time.Millisecond)
				}
			}
			if !idle {
				fail("%s: loading failed (%v) but the failed generation still holds the run lock: every later restart blocks", what, gotErr)
			}
			return
		}
		if gotErr != nil {
			fail("%s: unexpected error %v", what, gotErr)
		}
		got := c20Observed(mgr)
		if strings.Join(got, "\n") != strings.Join(want.tasks, "\n") {
			fail("%s: running tasks differ from the configured set\n got:  %v\n want: %v", what, got, want.tasks)
		}
	}
	// ---- first generation
	ec := make(chan error)
	go mgr.Run(ec)
	checkGen("Run", <-ec)
	gated, b2b, storedNew, loadOverlap, savedTwice, setupFault, srcEdited := false, false, false, false, false, false, false
	nact := rapid.IntRange(1, 5).Draw(rt, "nactions")
	for a := 0; a < nact; a++ {
		switch rapid.IntRange(0, 7).Draw(rt, "action") {
		case 6: // the same integration is saved a second time (the dashboard only ever inserts)
			if len(dbIgs) == 0 {
				continue
			}
			again := dbIgs[rapid.IntRange(0, len(dbIgs)-1).Draw(rt, "saveagain")]
			store(again)
			savedTwice = true
			var rerr error
			if p := catch(func() { rerr = mgr.Restart() }); p != nil {
				fail("Restart panicked: %v (history %v)", p, hist)
			}
			checkGen("same integration saved again + Restart", rerr)
		case 7: // a task cannot be set up while the generation is loaded (database error on its first round trip)
			want := c20Model(file, dbIgs, srcs)
			if want.err || len(want.tasks) == 0 {
				continue
			}
			nth := rapid.IntRange(1, len(want.tasks)).Draw(rt, "failtask")
			seen := 0
			db.Fault = func(op fakepg.Op) fakepg.Fault {
				if strings.HasPrefix(strings.ToLower(strings.TrimSpace(op.SQL)), "set application_name") {
					seen++
					if seen == nth {
						return fakepg.Fault{Kind: fakepg.ErrReply, Code: "53300"}
					}
				}
				return fakepg.Fault{}
			}
			var rerr error
			pn := catch(func() { rerr = mgr.Restart() })
			db.Fault = nil
			if pn != nil {
				fail("Restart panicked: %v (history %v)", pn, hist)
			}
			hist = append(hist, fmt.Sprintf("Restart with a failing task set-up -> err=%v", rerr != nil))
			if rerr == nil && seen >= nth {
				// reported success: then every configured pair must have its task
				got := c20Observed(mgr)
				if strings.Join(got, "\n") != strings.Join(want.tasks, "\n") {
					fail("Restart reported success although one task could not be set up, and that pair has no task\n got:  %v\n want: %v", got, want.tasks)
				}
			}
			setupFault = true
			// the fault is gone: the next restart loads everything
			var rerr2 error
			if p := catch(func() { rerr2 = mgr.Restart() }); p != nil {
				fail("Restart panicked: %v (history %v)", p, hist)
			}
			checkGen("Restart after the set-up fault cleared", rerr2)
		case 5: // a second restart arrives while the generation of the first one is still loading its tasks
			stall := make(chan struct{})
			var stallOnce sync.Once
			closeStall := func() { stallOnce.Do(func() { close(stall) }) }
			defer closeStall() // (whatever ends the case, the held query is let go)
			// (every draw is made before anything is held)
			ni := mkIg(fmt.Sprintf("late%d", a), "db")
			stalled := make(chan struct{}, 1)
			var once sync.Once
			// where the first restart is when the second one arrives: about to read the stored
			// integrations, the stored sources (integrations already read), or setting up its first task
			stallAt := rapid.SampledFrom([]string{"shovel.integrations", "shovel.sources", "set application_name"}).Draw(rt, "stallat")
			db.Fault = func(op fakepg.Op) fakepg.Fault {
				if q := strings.TrimSpace(strings.ToLower(op.SQL)); strings.Contains(q, stallAt) && (strings.HasPrefix(q, "select") || strings.HasPrefix(q, "set application_name")) {
					once.Do(func() {
						stalled <- struct{}{}
						<-stall
					})
				}
				return fakepg.Fault{}
			}
			var e1, e2 error
			var p1, p2 any
			d1, d2 := make(chan struct{}), make(chan struct{})
			go func() { p1 = catch(func() { e1 = mgr.Restart() }); close(d1) }()
			select {
			case <-stalled:
				store(ni)
				dbIgs = append(dbIgs, ni)
				go func() { p2 = catch(func() { e2 = mgr.Restart() }); close(d2) }()
				time.Sleep(5 * time.Millisecond)
				closeStall()
				for _, d := range []chan struct{}{d1, d2} {
					select {
					case <-d:
					case <-time.After(10 * time.Second):
						db.Fault = nil
						fail("a Restart that arrived while the previous generation was loading its tasks did not return within 10 s (history %v)", hist)
					}
				}
				loadOverlap = true
			case <-d1:
				closeStall()
				close(d2)
			case <-time.After(2 * time.Second):
				closeStall()
				<-d1
				close(d2)
			}
			db.Fault = nil
			if p1 != nil || p2 != nil {
				fail("Restart panicked: %v %v (history %v)", p1, p2, hist)
			}
			if e2 != nil && e1 == nil {
				e1 = e2
			}
			checkGen("Restart while loading ("+stallAt+") + store+Restart", e1)
		case 3: // the operator points a stored source at another endpoint; the next generation uses it
			var cands []*c20Src
			for _, sx := range srcs {
				if sx.inDB && !sx.inFile {
					cands = append(cands, sx)
				}
			}
			if len(cands) == 0 || c20Model(file, dbIgs, srcs).err {
				continue
			}
			sx := cands[rapid.IntRange(0, len(cands)-1).Draw(rt, "editsrc")]
			sx.node.Lock()
			n2 := sim.NewNode(sx.node.Chain.Clone())
			sx.node.Unlock()
			n2.OnRequest = gate
			u2 := ns.Attach(n2, "")
			defer ns.Detach(u2)
			db.DeleteRows("shovel.sources", func(v map[string]any) bool { return v["name"] == sx.name })
			if _, err := pool.Exec(context.Background(), `insert into shovel.sources(chain_id, name, url) values ($1, $2, $3)`, int(sx.chainID), sx.name, u2); err != nil {
				rt.Fatalf("VERIF-INCONCLUSIVE storing source: %v", err)
			}
			sx.former = append(sx.former, sx.node)
			sx.node, sx.url = n2, u2
			// and stores an integration that has all its work ahead of it
			ni := c20Ig{name: fmt.Sprintf("moved%d", a), enabled: true, where: "db", srcs: []refmodel.SourceRef{{Name: sx.name, Start: 1, Stop: 4}}}
			store(ni)
			dbIgs = append(dbIgs, ni)
			var rerr error
			if p := catch(func() { rerr = mgr.Restart() }); p != nil {
				fail("Restart panicked: %v (history %v)", p, hist)
			}
			checkGen("stored source "+sx.name+" edited + store+Restart", rerr)
			reached := false
			for i := 0; i < 3000 && !reached; i++ {
				for _, r := range db.Rows("shovel.task_updates") {
					if r["src_name"] == sx.name && r["ig_name"] == ni.name && numOf(r["num"]) >= 4 {
						reached = true
					}
				}
				if !reached {
					time.Sleep(time.Millisecond)
				}
			}
			if cnt := n2.Counts(); reached {
				srcEdited = true
				if cnt["http:blocks"]+cnt["http:headers"]+cnt["http:logs"]+cnt["http:receipts"] == 0 {
					fail("the stored source %s was pointed at a new URL before the restart; integration %s of the new generation indexed blocks 1-4 without a single block request to that URL: the task does not run with its source's settings (history %v)", sx.name, ni.name, hist)
				}
			}
		case 0: // a newly stored integration is picked up
			ni := mkIg(fmt.Sprintf("new%d", a), "db")
			store(ni)
			dbIgs = append(dbIgs, ni)
			storedNew = true
			var rerr error
			if p := catch(func() { rerr = mgr.Restart() }); p != nil {
				fail("Restart panicked: %v (history %v)", p, hist)
			}
			checkGen("store+Restart", rerr)
		case 1: // restart while a step is held open inside an RPC call
			for _, s := range srcs {
				s.node.Lock()
				s.node.Chain.Append(plainTx(50 + a))
				s.node.Unlock()
			}
			// stops move with the head so that runners have work to do
			gateMu.Lock()
			gateArmed = true
			gateMu.Unlock()
			var rerr error
			var pn any
			done := make(chan struct{})
			select {
			case <-held:
				gated = true
				seqCall := len(db.Events())
				go func() { pn = catch(func() { rerr = mgr.Restart() }); close(done) }()
				select {
				case <-done:
					// returned although a step of the previous generation is still inside its RPC call
					close(release)
					release = make(chan struct{})
					_ = seqCall
					if pn == nil && rerr == nil {
						fail("Restart returned while a step of the previous generation was still running (held inside an RPC call)")
					}
				case <-time.After(60 * time.Millisecond):
					close(release)
					release = make(chan struct{})
					<-done
				}
			case <-time.After(150 * time.Millisecond):
				// no runner fetched blocks (everything done): plain restart
				gateMu.Lock()
				gateArmed = false
				gateMu.Unlock()
				pn = catch(func() { rerr = mgr.Restart() })
			}
			if pn != nil {
				fail("Restart panicked: %v (history %v)", pn, hist)
			}
			checkGen("Restart during a step", rerr)
		case 2: // back-to-back restarts
			b2b = true
			var e1, e2 error
			var p1, p2 any
			var wg sync.WaitGroup
			wg.Add(2)
			go func() { defer wg.Done(); p1 = catch(func() { e1 = mgr.Restart() }) }()
			go func() { defer wg.Done(); p2 = catch(func() { e2 = mgr.Restart() }) }()
			waited := make(chan struct{})
			go func() { wg.Wait(); close(waited) }()
			select {
			case <-waited:
			case <-time.After(5 * time.Second):
				fail("two concurrent Restart calls did not both return within 5s (history %v)", hist)
			}
			if p1 != nil || p2 != nil {
				fail("concurrent Restart panicked: %v %v (history %v)", p1, p2, hist)
			}
			if e1 == nil {
				e1 = e2
			}
			checkGen("Restart x2", e1)
		default:
			var rerr error
			if p := catch(func() { rerr = mgr.Restart() }); p != nil {
				fail("Restart panicked: %v (history %v)", p, hist)
			}
			checkGen("Restart", rerr)
		}
		if v := c20Overlap(db.Events()); v != "" {
			fail("%s (history %v)", v, hist)
		}
	}
	if forever {
		// the operator removes the never-ending integration: the next generation has no runner for it
		db.DeleteRows("shovel.integrations", func(v map[string]any) bool { return v["name"] == "forever" })
		var kept []c20Ig
		for _, i := range dbIgs {
			if i.name != "forever" {
				kept = append(kept, i)
			}
		}
		dbIgs = kept
		var rerr error
		done := make(chan struct{})
		var pn any
		go func() { pn = catch(func() { rerr = mgr.Restart() }); close(done) }()
		select {
		case <-done:
		case <-time.After(10 * time.Second):
			fail("the final Restart did not return within 10 s (history %v)", hist)
		}
		if pn != nil {
			fail("Restart panicked: %v (history %v)", pn, hist)
		}
		checkGen("remove never-ending integration + Restart", rerr)
	}
	// let the runners finish (every task has a stop) and check once more
	deadline := time.Now().Add(3 * time.Second)
	for time.Now().Before(deadline) {
		if len(db.OpenTx()) == 0 {
			break
		}
		time.Sleep(5 * time.Millisecond)
	}
	time.Sleep(30 * time.Millisecond)
	if v := c20Overlap(db.Events()); v != "" {
		fail("%s (history %v)", v, hist)
	}
	// a task that reached its stop got its blocks from somewhere: from the node of its own source
	sameChain := false
	for i, s := range srcs {
		for _, o := range srcs[:i] {
			if o.chainID == s.chainID {
				sameChain = true
			}
		}
		done := 0
		for _, r := range db.Rows("shovel.task_updates") {
			if r["src_name"] == s.name && numOf(r["num"]) >= 4 {
				done++
			}
		}
		cnt := s.node.Counts()
		for _, o := range s.former {
			for k, v := range o.Counts() {
				cnt[k] += v
			}
		}
		if asked := cnt["http:blocks"] + cnt["http:headers"] + cnt["http:logs"] + cnt["http:receipts"]; done > 0 && asked == 0 {
			fail("tasks of source %s finished (%d positions at the stop block) but the node of %s was never asked for a block: they talked to another source's node (history %v)", s.name, done, s.name, hist)
		}
	}
	ev.Case(clash || unknownRef || gated || b2b, fmt.Sprint(file, dbIgs, hist), fmt.Sprintf("sameChainSources=%v", sameChain), fmt.Sprintf("manySources=%v", len(fillers) > 0), fmt.Sprintf("clash=%v", clash), fmt.Sprintf("unknownSource=%v", unknownRef), fmt.Sprintf("restartDuringStep=%v", gated), fmt.Sprintf("backToBack=%v", b2b), fmt.Sprintf("restartWhileLoading=%v", loadOverlap), fmt.Sprintf("savedTwice=%v", savedTwice), fmt.Sprintf("taskSetupFault=%v", setupFault), fmt.Sprintf("neverEndingTask=%v", forever), fmt.Sprintf("storedNew=%v", storedNew), fmt.Sprintf("storedSourceEdited=%v", srcEdited), fmt.Sprintf("dashedNames=%v", dashed))
	if (gated || b2b) && ev.WantSample(3) {
		ev.Sample(3, map[string]any{"file_integrations": fmt.Sprint(file), "db_integrations": fmt.Sprint(dbIgs), "history": hist})
	}
}

func TestC20_Manager(t *testing.T) {
	ev := evid.For("C20", "Manager")
	rapid.Check(t, func(rt *rapid.T) { c20Property(rt, ev) })
}
