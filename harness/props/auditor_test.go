package props

// Auditor evaluates the C02 invariant in every database state another session
// could observe (fakepg OnCommit hook): for every pair, the rows in the table
// are exactly the rows derived from the blocks up to its recorded position, in
// the versions of those blocks that were canonical when they were indexed. No
// row lies beyond the position and the position never advances without its rows.

import (
	"fmt"
	"sync"

	"verifharness/fakepg"
	"verifharness/model"
	"verifharness/sim"
)

type Auditor struct {
	w         *World
	mu        sync.Mutex
	indexed   map[string][]*sim.Block // per pair: block versions indexed, from First upwards
	first     map[string]uint64
	violation string
	commits   int
	checks    int
}

func NewAuditor(w *World) *Auditor {
	a := &Auditor{w: w, indexed: map[string][]*sim.Block{}, first: map[string]uint64{}}
	w.db.OnCommit = func(db *fakepg.DB, c *fakepg.Commit) { a.onCommit(db, c) }
	return a
}

func (a *Auditor) Violation() string {
	a.mu.Lock()
	defer a.mu.Unlock()
	return a.violation
}

func (a *Auditor) fail(f string, args ...any) {
	if a.violation == "" {
		a.violation = fmt.Sprintf(f, args...)
	}
}

// onCommit runs under the fakepg DB mutex.
func (a *Auditor) onCommit(db *fakepg.DB, c *fakepg.Commit) {
	a.mu.Lock()
	defer a.mu.Unlock()
	a.commits++
	// a pair that starts at the head begins anew when its whole position history is gone
	// (reorg of everything it had recorded): its first block is then the first block
	// of the next position row (num - nblocks + 1)
	for _, p := range a.w.Pairs {
		if p.Start != 0 {
			continue
		}
		key := p.Key()
		for _, x := range c.Added {
			if x.Table == "shovel.task_updates" && x.Row["src_name"] == p.Src.Name && x.Row["ig_name"] == p.Decl.Name {
				if _, known := a.first[key]; !known {
					if nb := numOf(x.Row["nblocks"]); nb > 0 && numOf(x.Row["num"])+1 >= nb {
						a.first[key] = numOf(x.Row["num"]) + 1 - nb
					}
				}
			}
		}
	}
	a.audit(db.RowsLocked, fmt.Sprintf("after commit #%d (+%d -%d rows)", c.Seq, len(c.Added), len(c.Removed)))
}

// CheckNow audits the committed state from outside a hook (after a failed
// step, after a restart).
func (a *Auditor) CheckNow(when string) string {
	a.mu.Lock()
	defer a.mu.Unlock()
	a.audit(a.w.db.Rows, when)
	return a.violation
}

func (a *Auditor) audit(rowsOf func(string) []map[string]any, when string) {
	w := a.w
	curs := rowsOf("shovel.task_updates")
	for _, p := range w.Pairs {
		key := p.Key()
		cur := cursorOf(curs, p.Src.Name, p.Decl.Name)
		stored := pairRows(rowsOf(p.Decl.Table), p.Src.Name, p.Decl.Name)
		if !cur.OK {
			if len(stored) > 0 {
				a.fail("%s: %s has %d rows but no recorded position", when, key, len(stored))
			}
			a.indexed[key] = nil
			if p.Start == 0 {
				delete(a.first, key) // it will begin anew at the head
			}
			continue
		}
		// no row beyond the position
		for _, r := range stored {
			if bn := numOf(r["block_num"]); bn > cur.Num {
				a.fail("%s: %s has a row of block %d beyond its recorded position %d", when, key, bn, cur.Num)
				return
			}
		}
		first, ok := a.first[key]
		if !ok {
			// where does this pair begin? start, or (start = 0) the lowest block the first commit covers
			if p.Start > 0 {
				first = p.Start
			} else if p.FirstSet {
				first = p.First
			} else {
				w.mu.Lock()
				if len(p.headsSeen) > 0 {
					first = p.headsSeen[0]
				} else {
					first = cur.Num
				}
				w.mu.Unlock()
			}
			a.first[key] = first
		}
		idx := a.indexed[key]
		have := first + uint64(len(idx)) - 1 // highest block recorded as indexed
		if len(idx) == 0 {
			have = first - 1
		}
		switch {
		case cur.Num < have:
			if cur.Num+1 < first {
				idx = nil
			} else {
				idx = idx[:cur.Num+1-first]
			}
		case cur.Num > have:
			// newly covered blocks: the rows of each must be the projection of one
			// version of that block the source has served (normally the canonical one)
			byBlock := map[uint64][]map[string]any{}
			for _, r := range stored {
				bn := numOf(r["block_num"])
				byBlock[bn] = append(byBlock[bn], r)
			}
			p.Src.Node.Lock()
			for n := have + 1; n <= cur.Num; n++ {
				var cands []*sim.Block
				if b := p.Src.Node.Chain.At(n); b != nil {
					cands = append(cands, b)
				}
				for _, o := range p.Src.Node.Chain.Orphans {
					if o.Num == n {
						cands = append(cands, o)
					}
				}
				var pick *sim.Block
				var firstDiff string
				for _, cnd := range cands {
					want := model.Project(p.Decl, []*sim.Block{cnd}, p.Src.Name, p.Src.ChainID, w.lookupFn(rowsOf))
					d := model.Diff(p.Decl, want, byBlock[n])
					if d == "" {
						pick = cnd
						break
					}
					if firstDiff == "" {
						firstDiff = d
					}
				}
				if pick == nil {
					p.Src.Node.Unlock()
					if len(cands) == 0 {
						a.fail("%s: %s recorded position %d but the source never had a block %d", when, key, cur.Num, n)
					} else {
						a.fail("%s: %s advanced to position %d but the rows of block %d are not those of any version of that block: %s", when, key, cur.Num, n, firstDiff)
					}
					return
				}
				idx = append(idx, pick)
			}
			p.Src.Node.Unlock()
		}
		a.indexed[key] = idx
		a.checks++
		want := model.Project(p.Decl, idx, p.Src.Name, p.Src.ChainID, w.lookupFn(rowsOf))
		if d := model.Diff(p.Decl, want, stored); d != "" {
			a.fail("%s: %s at position %d: rows do not cover exactly the blocks %d..%d as indexed: %s", when, key, cur.Num, first, cur.Num, d)
			return
		}
	}
}
