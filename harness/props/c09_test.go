package props

// C09 — ABI event data is decoded exactly for every type shape.
// Oracle: independent encoder (refmodel.EncodeSeq) + the row rule (refmodel.DataRows).

import (
	"bytes"
	"fmt"
	"testing"

	"github.com/indexsupply/shovel/dig"
	"pgregory.net/rapid"

	"verifharness/evid"
	"verifharness/gen"
	"verifharness/refmodel"
)

func sameCell(got, want []byte) bool {
	if len(got) == 0 && len(want) == 0 {
		return true
	}
	return bytes.Equal(got, want)
}

// compareRows returns "" when shovel's rows equal the model's.
func compareRows(got, want [][][]byte) string {
	if len(got) != len(want) {
		return fmt.Sprintf("row count %d want %d\n got:  %s\n want: %s", len(got), len(want), hexRows(got), hexRows(want))
	}
	for i := range want {
		if len(got[i]) != len(want[i]) {
			return fmt.Sprintf("row %d has %d cells want %d", i, len(got[i]), len(want[i]))
		}
		for j := range want[i] {
			if !sameCell(got[i][j], want[i][j]) {
				return fmt.Sprintf("row %d cell %d = %x want %x\n got:  %s\n want: %s", i, j, got[i][j], want[i][j], hexRows(got), hexRows(want))
			}
		}
	}
	return ""
}

func c09Case(rt *rapid.T, ev *evid.Rec, opts gen.EventOpts) {
	e := gen.GenEvent(rt, opts)
	de := digEvent(e)
	var res *dig.Result
	if p := catch(func() { res = dig.NewResult(de.ABIType()) }); p != nil {
		rt.Fatalf("VERIF-VIOLATION property=C09 building decoder for %s panicked: %v", e.Signature(), p)
	}
	nlogs := rapid.IntRange(1, 5).Draw(rt, "nlogs")
	st := statsOf(e)
	udyn := unselectedDynBeforeSelected(e)
	nontrivial := st.dynBelowComposite || st.fixedGE10 || udyn
	maxRows := 0
	for i := 0; i < nlogs; i++ {
		vals := gen.GenEventValues(rt, e, gen.DefaultValueOpts)
		_, data := e.LogOf(vals)
		want := e.DataRows(vals)
		if len(want) > maxRows {
			maxRows = len(want)
		}
		var err error
		if p := catch(func() { err = res.Scan(data) }); p != nil {
			rt.Fatalf("VERIF-VIOLATION property=C09 Scan panicked on a well-formed encoding: %v\n event=%s\n data=%x", p, eventJSON(e), data)
		}
		if err != nil {
			rt.Fatalf("VERIF-VIOLATION property=C09 Scan rejected a well-formed encoding (log %d of %d): %v\n event=%s\n data=%x", i+1, nlogs, err, eventJSON(e), data)
		}
		got := res.Bytes()
		if d := compareRows(got, want); d != "" {
			rt.Fatalf("VERIF-VIOLATION property=C09 decoded rows differ (log %d of %d through one decoder): %s\n event=%s\n data=%x", i+1, nlogs, d, eventJSON(e), data)
		}
	}
	ev.Case(nontrivial, eventJSON(e)+fmt.Sprint(nlogs, maxRows),
		fmt.Sprintf("dynBelowComposite=%v", st.dynBelowComposite), fmt.Sprintf("fixedGE10=%v", st.fixedGE10),
		fmt.Sprintf("unselDynBeforeSel=%v", udyn), fmt.Sprintf("tupleArray=%v", st.tupleArray),
		fmt.Sprintf("depth=%d", st.depth), fmt.Sprintf("nlogs=%d", nlogs), fmt.Sprintf("rows>1=%v", maxRows > 1))
	if nontrivial && ev.WantSample(4) {
		ev.Sample(4, map[string]any{"signature": e.Signature(), "logs": nlogs, "max_rows": maxRows})
	}
}

func TestC09_Decode(t *testing.T) {
	ev := evid.For("C09", "Decode")
	rapid.Check(t, func(rt *rapid.T) {
		c09Case(rt, ev, gen.EventOpts{Types: gen.DefaultTypeOpts, MaxInputs: 4, AllowIndexed: true, NeedSelected: true})
	})
}

// Deeper / wider trees, fewer cases.
func TestC09_DecodeDeep(t *testing.T) {
	ev := evid.For("C09", "DecodeDeep")
	rapid.Check(t, func(rt *rapid.T) {
		c09Case(rt, ev, gen.EventOpts{Types: gen.TypeOpts{MaxDepth: 4, MaxTuple: 4, MaxFixed: 13}, MaxInputs: 5, AllowIndexed: false, NeedSelected: true, SelProb: 60})
	})
}

// FuzzC09 drives the same property from the native fuzzer through rapid's
// byte-stream adapter (thorough tier).
func FuzzC09(f *testing.F) {
	ev := evid.For("C09", "FuzzC09")
	f.Fuzz(rapid.MakeFuzz(func(rt *rapid.T) {
		c09Case(rt, ev, gen.EventOpts{Types: gen.DefaultTypeOpts, MaxInputs: 4, AllowIndexed: true, NeedSelected: true})
	}))
}

func TestC09_KnownFindings(t *testing.T) {
	mk := func(ty *refmodel.Type) *refmodel.Event {
		ty.Name = "a"
		ty.Column = "c1"
		return &refmodel.Event{Name: "E", Inputs: []*refmodel.Type{ty}}
	}
	run := func(e *refmodel.Event, vals []refmodel.Value) string {
		de := digEvent(e)
		var out string
		if p := catch(func() {
			res := dig.NewResult(de.ABIType())
			_, data := e.LogOf(vals)
			if err := res.Scan(data); err != nil {
				out = "Scan: " + err.Error()
				return
			}
			out = compareRows(res.Bytes(), e.DataRows(vals))
		}); p != nil {
			return fmt.Sprint("panic: ", p)
		}
		return out
	}
	u256 := func() *refmodel.Type { return &refmodel.Type{Kind: refmodel.KUint, Bits: 256} }
	knownFinding(t, "C09", "C09/fixed-array-length-digits-reversed", func() string {
		arr := &refmodel.Type{Kind: refmodel.KArray, Len: 12, Elem: u256()}
		e := mk(arr)
		v := refmodel.Value{T: arr}
		for i := 0; i < 12; i++ {
			w := make([]byte, 32)
			w[31] = byte(100 + i)
			v.Elems = append(v.Elems, refmodel.Value{T: arr.Elem, Word: w})
		}
		return run(e, []refmodel.Value{v})
	})
	knownFinding(t, "C09", "C09/bytes-array-parsed-as-static", func() string {
		arr := &refmodel.Type{Kind: refmodel.KArray, Len: -1, Elem: &refmodel.Type{Kind: refmodel.KBytes}}
		e := mk(arr)
		v := refmodel.Value{T: arr, Elems: []refmodel.Value{{T: arr.Elem, Data: []byte("hello")}, {T: arr.Elem, Data: bytes.Repeat([]byte{7}, 40)}}}
		return run(e, []refmodel.Value{v})
	})
}
