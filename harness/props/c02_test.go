package props

// C02 — rows and recorded position commit atomically; no partial state after failure.

import (
	"fmt"
	"math/big"
	"strings"
	"sync/atomic"
	"testing"

	"pgregory.net/rapid"

	"verifharness/evid"
	"verifharness/fakepg"
	"verifharness/refmodel"
	"verifharness/sim"
)

// ---- deterministic scenario material ------------------------------------------

func xferEvent() *refmodel.Event {
	return &refmodel.Event{Name: "Transfer", Inputs: []*refmodel.Type{
		{Kind: refmodel.KAddress, Name: "from", Indexed: true, Column: "f"},
		{Kind: refmodel.KAddress, Name: "to", Indexed: true, Column: "t"},
		{Kind: refmodel.KUint, Bits: 256, Name: "value", Column: "v"}}}
}

func xferDecl(name string, start uint64, notify bool) *refmodel.Decl {
	d := &refmodel.Decl{Name: name, Enabled: true, Table: name, Event: xferEvent(), Filters: map[*refmodel.Type]*refmodel.Filter{},
		Block:   []refmodel.BlockField{{Name: "block_time", Column: "block_time"}, {Name: "tx_hash", Column: "tx_hash"}, {Name: "log_addr", Column: "log_addr"}},
		Columns: []refmodel.Column{{Name: "f", Type: "bytea"}, {Name: "t", Type: "bytea"}, {Name: "v", Type: "numeric"}, {Name: "block_time", Type: "numeric"}, {Name: "tx_hash", Type: "bytea"}, {Name: "log_addr", Type: "bytea"}},
		Sources: []refmodel.SourceRef{{Name: "src1", Start: start}}}
	if notify {
		d.Notify = []string{"v", "f"}
	}
	return d
}

func addrN(n byte) []byte {
	a := make([]byte, 20)
	for i := range a {
		a[i] = n
	}
	return a
}

// xferTxs: deterministic block contents with Transfer logs and a decoy.
func xferTxs(seed int) []sim.Tx {
	ev := xferEvent()
	var txs []sim.Tx
	for i := 0; i < 1+seed%2; i++ {
		tx := sim.Tx{Idx: uint64(i), From: addrN(byte(1 + seed%5)), To: addrN(byte(2 + i)), Value: big.NewInt(int64(10*seed + i + 1)), Input: []byte{0xa9, 0x05, byte(seed)},
			GasPrice: big.NewInt(7), V: big.NewInt(1), R: big.NewInt(1), S: big.NewInt(1), EffGasPrice: big.NewInt(7), Status: 1, GasUsed: 21000}
		for j := 0; j < 1+(seed+i)%2; j++ {
			w := func(b []byte) []byte { x := make([]byte, 32); copy(x[32-len(b):], b); return x }
			vals := []refmodel.Value{{T: ev.Inputs[0], Word: w(addrN(byte(seed + j + 1)))}, {T: ev.Inputs[1], Word: w(addrN(byte(seed + j + 2)))}, {T: ev.Inputs[2], Word: w([]byte{byte(seed), byte(j + 1)})}}
			topics, data := ev.LogOf(vals)
			tx.Logs = append(tx.Logs, sim.Log{Addr: addrN(0x77), Topics: topics, Data: data, Event: ev, Vals: vals, Kind: "match"})
		}
		// a decoy: same name, other indexed layout (one topic less)
		dec := xferEvent()
		dec.Inputs[1].Indexed = false
		dec.Inputs[0].Column, dec.Inputs[1].Column, dec.Inputs[2].Column = "", "", ""
		w := func(b []byte) []byte { x := make([]byte, 32); copy(x[32-len(b):], b); return x }
		dvals := []refmodel.Value{{T: dec.Inputs[0], Word: w(addrN(9))}, {T: dec.Inputs[1], Word: w(addrN(8))}, {T: dec.Inputs[2], Word: w([]byte{1})}}
		dt, dd := dec.LogOf(dvals)
		tx.Logs = append(tx.Logs, sim.Log{Addr: addrN(0x66), Topics: dt, Data: dd, Event: dec, Vals: dvals, Kind: "decoy-layout"})
		txs = append(txs, tx)
	}
	return txs
}

type scenario struct {
	name   string
	build  func(t fataler) (*World, error) // world with prefix history applied; the NEXT step of w.Pairs[target] is observed
	target int
	reorg  bool
	// between runs after the observed (possibly faulted) step and before the retries
	between func(w *World)
}

func buildWorld(t fataler, batch, conc, blocks int, decls ...*refmodel.Decl) (*World, error) {
	node := sim.NewNode(sim.NewChain())
	for i := 1; i <= blocks; i++ {
		node.Chain.Append(xferTxs(i))
	}
	return NewWorld(t, []*SourceCfg{{Name: "src1", ChainID: 1, Batch: batch, Conc: conc, Node: node}}, decls)
}

func c02Scenarios() []scenario {
	stepN := func(w *World, i, n int) {
		for k := 0; k < n; k++ {
			w.Step(w.Pairs[i])
		}
	}
	reorgAt := func(w *World, fork uint64, n int) {
		nd := w.Sources[0].Node
		nd.Lock()
		var cs [][]sim.Tx
		for i := 0; i < n; i++ {
			cs = append(cs, xferTxs(50+i))
		}
		nd.Chain.Reorg(fork, cs)
		nd.Unlock()
		// fresh clients: the observed step must not be answered from the head cache
		w.Restart()
	}
	return []scenario{
		{name: "plain-step", build: func(t fataler) (*World, error) {
			w, err := buildWorld(t, 2, 1, 8, xferDecl("xfer", 1, false))
			if err == nil {
				stepN(w, 0, 2)
			}
			return w, err
		}},
		{name: "first-step-start-configured", build: func(t fataler) (*World, error) {
			return buildWorld(t, 3, 1, 6, xferDecl("xfer", 2, false))
		}},
		{name: "first-step-start-at-head", build: func(t fataler) (*World, error) {
			return buildWorld(t, 2, 1, 5, xferDecl("xfer", 0, false))
		}},
		{name: "reorg-unwind-1", reorg: true, build: func(t fataler) (*World, error) {
			w, err := buildWorld(t, 1, 1, 6, xferDecl("xfer", 1, false))
			if err == nil {
				stepN(w, 0, 6)
				reorgAt(w, 6, 3)
			}
			return w, err
		}},
		{name: "reorg-unwind-3", reorg: true, build: func(t fataler) (*World, error) {
			w, err := buildWorld(t, 1, 1, 7, xferDecl("xfer", 1, false))
			if err == nil {
				stepN(w, 0, 7)
				reorgAt(w, 5, 5)
			}
			return w, err
		}},
		{name: "reorg-batch-3", reorg: true, build: func(t fataler) (*World, error) {
			w, err := buildWorld(t, 3, 1, 6, xferDecl("xfer", 1, false))
			if err == nil {
				stepN(w, 0, 2)
				reorgAt(w, 5, 4)
			}
			return w, err
		}},
		{name: "reorg-batch-3-sparse", reorg: true, build: func(t fataler) (*World, error) {
			// only the blocks that get orphaned carry rows; the replacement is empty,
			// so nothing written after the unwind can collide with what should have been deleted
			node := sim.NewNode(sim.NewChain())
			for i := 1; i <= 6; i++ {
				if i >= 5 {
					node.Chain.Append(xferTxs(i))
				} else {
					node.Chain.Append(nil)
				}
			}
			w, err := NewWorld(t, []*SourceCfg{{Name: "src1", ChainID: 1, Batch: 3, Conc: 1, Node: node}}, []*refmodel.Decl{xferDecl("xfer", 1, false)})
			if err == nil {
				stepN(w, 0, 2)
				node.Lock()
				node.Chain.Reorg(5, [][]sim.Tx{nil, nil, nil, nil})
				node.Unlock()
				w.Restart()
			}
			return w, err
		}},
		{name: "reorg-batch-2-dense-positions", reorg: true, build: func(t fataler) (*World, error) {
			// the head grew one block at a time, so every height has a recorded
			// position although batch_size is 2; after the unwind the step lands on a
			// height that has no position yet
			node := sim.NewNode(sim.NewChain())
			node.Chain.Append(nil)
			w, err := NewWorld(t, []*SourceCfg{{Name: "src1", ChainID: 1, Batch: 2, Conc: 1, Node: node}}, []*refmodel.Decl{xferDecl("xfer", 1, false)})
			if err != nil {
				return w, err
			}
			for i := 2; i <= 6; i++ {
				w.Restart() // no cached head
				w.Step(w.Pairs[0])
				node.Lock()
				if i == 6 {
					node.Chain.Append(xferTxs(i))
				} else {
					node.Chain.Append(nil)
				}
				node.Unlock()
			}
			w.Restart()
			w.Step(w.Pairs[0])
			node.Lock()
			node.Chain.Reorg(6, [][]sim.Tx{nil, nil, nil})
			node.Unlock()
			w.Restart()
			return w, err
		}},
		{name: "reorg-of-the-whole-history-start-at-head", reorg: true, build: func(t fataler) (*World, error) {
			// fresh start at the head: one position; the reorg replaces that very block
			w, err := buildWorld(t, 1, 1, 5, xferDecl("xfer", 0, false))
			if err == nil {
				stepN(w, 0, 2)
				reorgAt(w, 5, 3)
			}
			return w, err
		}},
		{name: "reorg-of-the-whole-history-batch-3", reorg: true, build: func(t fataler) (*World, error) {
			w, err := buildWorld(t, 3, 1, 7, xferDecl("xfer", 0, false))
			if err == nil {
				stepN(w, 0, 1)
				nd := w.Sources[0].Node
				nd.Lock()
				nd.Chain.Append(xferTxs(8))
				nd.Chain.Append(xferTxs(9))
				nd.Unlock()
				w.Restart()
				stepN(w, 0, 1)
				reorgAt(w, 6, 5)
			}
			return w, err
		}},
		{name: "reference-lookup", target: 1, build: func(t fataler) (*World, error) {
			ref := simpleTxDecl("reftx", 1)
			ref.Block = append(ref.Block, refmodel.BlockField{Name: "tx_signer", Column: "tx_signer"})
			ref.Columns = append(ref.Columns, refmodel.Column{Name: "tx_signer", Type: "bytea"})
			dep := xferDecl("dep", 1, false)
			dep.Filters[dep.Event.Inputs[0]] = &refmodel.Filter{Op: "contains", Ref: &refmodel.Ref{Integration: "reftx", Column: "tx_signer"}}
			w, err := buildWorld(t, 2, 1, 6, ref, dep)
			if err == nil {
				stepN(w, 0, 3)
				stepN(w, 1, 1)
			}
			return w, err
		}},
		{name: "notifications", build: func(t fataler) (*World, error) {
			w, err := buildWorld(t, 2, 1, 6, xferDecl("xfer", 1, true))
			if err == nil {
				stepN(w, 0, 1)
			}
			return w, err
		}},
		{name: "concurrency-3", build: func(t fataler) (*World, error) {
			w, err := buildWorld(t, 6, 3, 9, xferDecl("xfer", 1, false))
			if err == nil {
				stepN(w, 0, 1)
			}
			return w, err
		}},
		{name: "tx-with-receipts", build: func(t fataler) (*World, error) {
			d := simpleTxDecl("txr", 1)
			d.Block = append(d.Block, refmodel.BlockField{Name: "tx_status", Column: "tx_status"})
			d.Columns = append(d.Columns, refmodel.Column{Name: "tx_status", Type: "int"})
			w, err := buildWorld(t, 2, 2, 6, d)
			if err == nil {
				stepN(w, 0, 1)
			}
			return w, err
		}},
		{name: "tx-with-receipts-reorg-to-empty-before-retry", reorg: true, build: func(t fataler) (*World, error) {
			// two integrations on the source, so a fetched segment stays cached for a
			// second read; the blocks the faulted step fetched are then replaced by
			// empty ones before the retry (found by the thorough tier, fixed by 0998c18)
			d := simpleTxDecl("txr", 1)
			d.Block = append(d.Block, refmodel.BlockField{Name: "tx_status", Column: "tx_status"})
			d.Columns = append(d.Columns, refmodel.Column{Name: "tx_status", Type: "int"})
			w, err := buildWorld(t, 2, 1, 6, d, xferDecl("xfer", 1, false))
			if err == nil {
				stepN(w, 0, 1)
			}
			return w, err
		}, between: func(w *World) {
			nd := w.Sources[0].Node
			nd.Lock()
			nd.Chain.Reorg(3, [][]sim.Tx{nil, nil, nil, nil, nil})
			nd.Unlock()
		}},
	}
}

type faultPoint struct {
	db   bool // database operation (else RPC request)
	idx  int  // index among the operations of the observed step
	kind string
	desc string
}

// runFaulted executes scenario sc with one fault injected at fp (nil = none).
// It returns the recorded operations (for the fault-free run) and a violation.
func runFaulted(sc scenario, fp *faultPoint) (dbOps []string, rpcOps []string, viol string, fired bool) {
	w, err := sc.build(quietT{})
	if w != nil {
		defer w.Close()
	}
	if err != nil {
		return nil, nil, "INCONCLUSIVE scenario set-up: " + err.Error(), false
	}
	aud := NewAuditor(w)
	if v := aud.CheckNow("before the observed step"); v != "" {
		return nil, nil, "INCONCLUSIVE prefix state already inconsistent: " + v, false
	}
	p := w.Pairs[sc.target]
	var dbN, rpcN atomic.Int64
	var firedFlag atomic.Bool
	base := w.db.OpCount()
	w.db.OnOp = func(op fakepg.Op, f fakepg.Fault) {
		dbOps = append(dbOps, string(op.Kind)+" "+firstWords(op.SQL, 6))
	}
	w.db.Fault = func(op fakepg.Op) fakepg.Fault {
		i := int(dbN.Add(1)) - 1
		_ = base
		if fp != nil && fp.db && i == fp.idx && !firedFlag.Load() {
			firedFlag.Store(true)
			switch fp.kind {
			case "error":
				return fakepg.Fault{Kind: fakepg.ErrReply, Code: "40001"}
			case "drop-before", "death":
				return fakepg.Fault{Kind: fakepg.DropBefore}
			case "drop-after", "death-after":
				return fakepg.Fault{Kind: fakepg.DropAfter}
			}
		}
		return fakepg.Fault{}
	}
	w.SetHook(func(s *SourceCfg, n *sim.Node, ri sim.ReqInfo) *sim.Fault {
		i := int(rpcN.Add(1)) - 1
		rpcOps = append(rpcOps, ri.Kind)
		if fp != nil && !fp.db && i == fp.idx && !firedFlag.Load() {
			firedFlag.Store(true)
			switch fp.kind {
			case "http-503":
				return &sim.Fault{Status: 503}
			case "close", "death":
				return &sim.Fault{CloseConn: true}
			case "bad-json":
				return &sim.Fault{BadJSON: true}
			case "truncated":
				return &sim.Fault{Truncate: 25}
			}
		}
		return nil
	})
	r := w.Step(p)
	w.db.Fault, w.db.OnOp = nil, nil
	w.SetHook(nil)
	if r.Panic != nil {
		return dbOps, rpcOps, fmt.Sprintf("Converge panicked: %v", r.Panic), firedFlag.Load()
	}
	if fp != nil && strings.HasPrefix(fp.kind, "death") {
		// process death: every connection dropped, all in-memory state discarded
		if err := w.Restart(); err != nil {
			return dbOps, rpcOps, "INCONCLUSIVE restart: " + err.Error(), firedFlag.Load()
		}
	}
	if len(r.OpenTx) > 0 || r.Held > 0 {
		return dbOps, rpcOps, fmt.Sprintf("the step returned (%s %s) but left a transaction open (server sessions %v, %d pool connection(s) never handed back): its rows and locks stay uncommitted and later steps run out of connections", r.Outcome(), errString(r.Err), r.OpenTx, r.Held), firedFlag.Load()
	}
	if v := aud.CheckNow("in the state left behind by the step (" + r.Outcome() + " " + errString(r.Err) + ")"); v != "" {
		return dbOps, rpcOps, v, firedFlag.Load()
	}
	if fp == nil && r.Err != nil {
		return dbOps, rpcOps, "INCONCLUSIVE fault-free run of the scenario failed: " + r.Err.Error(), false
	}
	if sc.between != nil {
		sc.between(w)
	}
	// the fault clears: retrying completes as if it had not happened
	for i := 0; i < 40; i++ {
		w.Step(p)
		for _, q := range w.Pairs {
			if q != p {
				w.Step(q)
			}
		}
	}
	if v := aud.Violation(); v != "" {
		return dbOps, rpcOps, v, firedFlag.Load()
	}
	for _, q := range w.Pairs {
		cur := w.Cursor(q)
		head := q.Src.Node.Chain.Head()
		if !cur.OK || cur.Num != head.Num || string(cur.Hash) != string(head.Hash) {
			return dbOps, rpcOps, fmt.Sprintf("after the fault cleared %s ends at %s, head is %d/%x", q.Key(), curStr(cur), head.Num, head.Hash[:4]), firedFlag.Load()
		}
		if v := w.CheckPair(q); v != "" {
			return dbOps, rpcOps, "after the fault cleared: " + v, firedFlag.Load()
		}
	}
	return dbOps, rpcOps, "", firedFlag.Load()
}

func firstWords(s string, n int) string {
	f := strings.Fields(s)
	if len(f) > n {
		f = f[:n]
	}
	return strings.Join(f, " ")
}

// TestC02_SingleFaults: exhaustive single-fault enumeration over the scenarios.
func TestC02_SingleFaults(t *testing.T) {
	ev := evid.For("C02", "SingleFaults")
	si, sn := shard()
	dbKinds := []string{"error", "drop-before", "drop-after", "death", "death-after"}
	rpcKinds := []string{"http-503", "close", "bad-json", "truncated", "death"}
	points := 0
	for sci, sc := range c02Scenarios() {
		if sci%sn != si {
			continue
		}
		dbOps, rpcOps, viol, _ := runFaulted(sc, nil)
		if viol != "" {
			if strings.HasPrefix(viol, "INCONCLUSIVE") {
				t.Fatalf("VERIF-INCONCLUSIVE scenario %s: %s", sc.name, viol)
			}
			t.Fatalf("VERIF-VIOLATION property=C02 scenario %s without faults: %s", sc.name, viol)
		}
		ev.Sample(12, map[string]any{"scenario": sc.name, "db_ops": dbOps, "rpc_requests": rpcOps})
		var pts []faultPoint
		for i, op := range dbOps {
			for _, k := range dbKinds {
				pts = append(pts, faultPoint{db: true, idx: i, kind: k, desc: op})
			}
		}
		for i, op := range rpcOps {
			for _, k := range rpcKinds {
				pts = append(pts, faultPoint{db: false, idx: i, kind: k, desc: op})
			}
		}
		for _, fp := range pts {
			fp := fp
			_, _, viol, fired := runFaulted(sc, &fp)
			points++
			where := fmt.Sprintf("scenario=%s fault=%s at %s op #%d (%s)", sc.name, fp.kind, map[bool]string{true: "db", false: "rpc"}[fp.db], fp.idx, fp.desc)
			if strings.HasPrefix(viol, "INCONCLUSIVE") {
				t.Fatalf("VERIF-INCONCLUSIVE %s: %s", where, viol)
			}
			if viol != "" {
				t.Fatalf("VERIF-VIOLATION property=C02 %s: %s", where, viol)
			}
			// non-trivial: the fault fired after the first write of a transaction and before its commit reply
			nt := fired && fp.db && (strings.HasPrefix(fp.desc, "copy") || strings.HasPrefix(fp.desc, "commit") || strings.Contains(fp.desc, "insert into shovel.task_updates") || strings.Contains(fp.desc, "delete from"))
			ev.Case(nt, where, "kind="+fp.kind, fmt.Sprintf("fired=%v", fired))
		}
		ev.LabelN("scenario="+sc.name+":points", int64(len(pts)))
	}
	ev.Set("exhaustive_single_faults", true)
	t.Logf("fault points in this shard: %d", points)
}

// TestC02_MultiFault: random multi-fault plans on generated growth/reorg histories
// with the invariant evaluated at every commit.
func TestC02_MultiFault(t *testing.T) {
	ev := evid.For("C02", "MultiFault")
	rapid.Check(t, func(rt *rapid.T) {
		o := machineOpts{MaxDecls: 2, Kinds: []string{"log", "tx"}, MaxBatch: 5, MaxConc: 3, InitBlocks: [2]int{3, 8}, Starts: []string{"one", "mid", "zero"}, NeedParent: true, Notify: true}
		m := newMachine(rt, o)
		defer m.Close()
		w := m.w
		aud := NewAuditor(w)
		fail := func(f string, a ...any) {
			rt.Fatalf("VERIF-VIOLATION property=C02 %s\n history:\n   %s", fmt.Sprintf(f, a...), m.History())
		}
		st := &c03State{floor: map[string]uint64{}, hasFloor: map[string]bool{}, maxEver: map[string]uint64{}, deletions: map[string]bool{}}
		// fault plan for the next step: op index -> kind
		type plan struct {
			db  map[int]fakepg.FaultKind
			rpc map[int]string
		}
		var cur *plan
		var dbN, rpcN atomic.Int64
		midWrite := false
		w.db.Fault = func(op fakepg.Op) fakepg.Fault {
			i := int(dbN.Add(1)) - 1
			if cur != nil {
				if k, ok := cur.db[i]; ok {
					if op.Kind == fakepg.OpCommit || op.Kind == fakepg.OpCopy || op.Kind == fakepg.OpCopyEnd || strings.Contains(op.SQL, "task_updates (") {
						midWrite = true
					}
					return fakepg.Fault{Kind: k, Code: "40001"}
				}
			}
			return fakepg.Fault{}
		}
		w.SetHook(func(s *SourceCfg, n *sim.Node, ri sim.ReqInfo) *sim.Fault {
			i := int(rpcN.Add(1)) - 1
			if cur != nil {
				switch cur.rpc[i] {
				case "503":
					return &sim.Fault{Status: 503}
				case "close":
					return &sim.Fault{CloseConn: true}
				case "badjson":
					return &sim.Fault{BadJSON: true}
				case "lag1", "lag2":
					// answered by a replica that is one or two blocks behind
					if ri.Kind != "latest" {
						return &sim.Fault{Lag: int(cur.rpc[i][3] - '0')}
					}
				}
			}
			return nil
		})
		nfaults := 0
		nact := drawActions(rt, 4, 16, 40)
		for i := 0; i < nact; i++ {
			switch a := rapid.IntRange(0, 9).Draw(rt, "action"); {
			case a <= 1:
				m.grow(m.pickSource("growsrc"), rapid.IntRange(1, 4).Draw(rt, "grown"))
			case a == 2:
				s := m.pickSource("reorgsrc")
				low, ok := m.lowestCursor(s)
				head := s.Node.Chain.Head().Num
				if !ok || head <= low+1 {
					m.grow(s, 2)
					continue
				}
				depth := rapid.IntRange(1, min(4, int(head-low-1))).Draw(rt, "depth")
				minLen := max(0, depth-1)
				if whole := int(head-low) + 1; low >= 2 && whole <= 8 && rapid.IntRange(0, 3).Draw(rt, "wholehistory") == 0 {
					// the reorg takes every position the lowest task has recorded (e.g. the first
					// block indexed after a fresh start at the head)
					depth, minLen = whole, whole
					m.label("whole-history-reorg")
				}
				var txs [][]sim.Tx
				for j := rapid.IntRange(minLen, depth+2).Draw(rt, "newlen"); j > 0; j-- {
					txs = append(txs, genTxsFor(rt, m))
				}
				m.doReorg(st, s, head-uint64(depth)+1, txs, false)
			case a == 3:
				m.reconfigure()
				if err := w.Restart(); err != nil {
					rt.Fatalf("VERIF-INCONCLUSIVE restart: %v", err)
				}
				m.logf("restart (process death between steps)")
			default:
				p := m.pickPair("steppair")
				cur = &plan{db: map[int]fakepg.FaultKind{}, rpc: map[int]string{}}
				dbN.Store(0)
				rpcN.Store(0)
				for k := rapid.IntRange(0, 3).Draw(rt, "nfaults"); k > 0; k-- {
					if rapid.Bool().Draw(rt, "dbfault") {
						cur.db[rapid.IntRange(0, 14).Draw(rt, "dbop")] = rapid.SampledFrom([]fakepg.FaultKind{fakepg.ErrReply, fakepg.DropBefore, fakepg.DropAfter}).Draw(rt, "dbkind")
					} else {
						cur.rpc[rapid.IntRange(0, 8).Draw(rt, "rpcop")] = rapid.SampledFrom([]string{"503", "close", "badjson", "lag1", "lag2"}).Draw(rt, "rpckind")
					}
					nfaults++
				}
				m.logf("faults for next step: db=%v rpc=%v", cur.db, cur.rpc)
				r := m.step(p)
				cur = nil
				if r.Panic != nil {
					fail("Converge panicked: %v", r.Panic)
				}
				if r.After.OK && r.After.Num > st.maxEver[p.Src.Name] {
					st.maxEver[p.Src.Name] = r.After.Num
				}
				if len(r.OpenTx) > 0 || r.Held > 0 {
					fail("the step of %s returned (%s %s) but left a transaction open (server sessions %v, %d pool connection(s) never handed back)", p.Key(), r.Outcome(), errString(r.Err), r.OpenTx, r.Held)
				}
				if rapid.IntRange(0, 5).Draw(rt, "deathafter") == 0 {
					if err := w.Restart(); err != nil {
						rt.Fatalf("VERIF-INCONCLUSIVE restart: %v", err)
					}
					m.logf("restart (process death)")
				}
				if v := aud.CheckNow("after step " + p.Key() + " (" + r.Outcome() + ")"); v != "" {
					fail("%s", v)
				}
			}
		}
		cur = nil
		w.db.Fault = nil
		w.SetHook(nil)
		for round := 0; ; round++ {
			if msg := m.settle(len(m.decls)+3, func(p *Pair, r StepResult) {
				if r.After.OK && r.After.Num > st.maxEver[p.Src.Name] {
					st.maxEver[p.Src.Name] = r.After.Num
				}
			}); msg != "" {
				if strings.HasPrefix(msg, "INCONCLUSIVE") {
					rt.Fatalf("VERIF-INCONCLUSIVE %s", msg)
				}
				fail("%s", msg)
			}
			v := aud.Violation()
			if v != "" {
				fail("%s", v)
			}
			bad := ""
			for _, p := range w.Pairs {
				c := w.Cursor(p)
				head := p.Src.Node.Chain.Head()
				if !c.OK || c.Num != head.Num || string(c.Hash) != string(head.Hash) {
					bad = fmt.Sprintf("after the faults cleared %s ends at %s, head is %d", p.Key(), curStr(c), head.Num)
				} else if x := w.CheckPair(p); x != "" {
					bad = "after the faults cleared: " + x
				}
			}
			if bad == "" {
				break
			}
			if round == healRounds {
				fail("%s", bad)
			}
			for _, s := range w.Sources {
				m.grow(s, max(1, int(st.maxEver[s.Name])+1-int(s.Node.Chain.Head().Num)))
			}
		}
		ev.Case(midWrite, m.History(), fmt.Sprintf("midWrite=%v", midWrite), fmt.Sprintf("faults=%d", min(nfaults, 6)), fmt.Sprintf("reorgs=%d", min(st.reorgs, 3)))
		if midWrite && ev.WantSample(3) {
			ev.Sample(3, map[string]any{"config": m.describeConfig(), "history": m.hist[1:min(len(m.hist), 14)]})
		}
	})
}

func genTxsFor(rt *rapid.T, m *machine) []sim.Tx { return genTxs(rt, m) }
