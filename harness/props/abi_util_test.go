package props

import (
	"bytes"
	"context"
	"database/sql/driver"
	"encoding/hex"
	"encoding/json"
	"fmt"
	"math/big"
	"strings"

	"github.com/holiman/uint256"
	"github.com/indexsupply/shovel/dig"
	"github.com/indexsupply/shovel/eth"
	"github.com/jackc/pgx/v5"
	"github.com/jackc/pgx/v5/pgconn"

	"verifharness/refmodel"
)

// digEvent converts a reference-model event into shovel's dig.Event through
// the ABI JSON, so that shovel's own parser builds its decoder.
func digEvent(ev *refmodel.Event) dig.Event {
	b, err := json.Marshal(ev.JSON())
	if err != nil {
		panic(err)
	}
	var de dig.Event
	if err := json.Unmarshal(b, &de); err != nil {
		panic(err)
	}
	return de
}

func eventJSON(ev *refmodel.Event) string {
	b, _ := json.Marshal(ev.JSON())
	return string(b)
}

// capConn is an in-memory wpg.Conn that captures COPY rows and SQL.
type capConn struct {
	cols  []string
	table string
	rows  [][]any
	sql   []string
	// ref lookup script: (table, column, hex(value)) -> present
	refs map[string]bool
	fail error
}

func (c *capConn) CopyFrom(ctx context.Context, t pgx.Identifier, cols []string, src pgx.CopyFromSource) (int64, error) {
	c.table = strings.Join(t, ".")
	c.cols = cols
	var n int64
	for src.Next() {
		v, err := src.Values()
		if err != nil {
			return n, err
		}
		c.rows = append(c.rows, v)
		n++
	}
	return n, src.Err()
}

func (c *capConn) Exec(ctx context.Context, q string, a ...any) (pgconn.CommandTag, error) {
	c.sql = append(c.sql, q)
	return pgconn.CommandTag{}, nil
}

type capRow struct {
	found bool
	err   error
}

func (r capRow) Scan(dst ...any) error {
	if r.err != nil {
		return r.err
	}
	if !r.found {
		return pgx.ErrNoRows
	}
	if p, ok := dst[0].(*bool); ok {
		*p = true
	}
	return nil
}

func (c *capConn) QueryRow(ctx context.Context, q string, a ...any) pgx.Row {
	c.sql = append(c.sql, q)
	if c.fail != nil {
		return capRow{err: c.fail}
	}
	var table, col string
	if n, _ := fmt.Sscanf(q, "select true from %s where %s = $1", &table, &col); n == 2 && len(a) == 1 {
		if b, ok := a[0].([]byte); ok {
			return capRow{found: c.refs[table+"|"+col+"|"+hex.EncodeToString(b)]}
		}
	}
	return capRow{}
}

func (c *capConn) Query(ctx context.Context, q string, a ...any) (pgx.Rows, error) {
	return nil, fmt.Errorf("capConn: Query not supported")
}

// canon renders a value handed to COPY the way Postgres would store it, as a
// canonical comparable: *big.Int for every integer kind, []byte, string, bool, nil.
func canon(v any) any {
	switch x := v.(type) {
	case nil:
		return nil
	case *uint256.Int:
		return x.ToBig()
	case uint256.Int:
		return x.ToBig()
	case driver.Valuer:
		dv, err := x.Value()
		if err != nil {
			return fmt.Errorf("valuer: %w", err)
		}
		if s, ok := dv.(string); ok {
			n, ok := new(big.Int).SetString(s, 10)
			if !ok {
				return fmt.Errorf("valuer gave non-decimal %q", s)
			}
			return n
		}
		return canon(dv)
	case int:
		return big.NewInt(int64(x))
	case int64:
		return big.NewInt(x)
	case uint64:
		return new(big.Int).SetUint64(x)
	case eth.Uint64:
		return new(big.Int).SetUint64(uint64(x))
	case eth.Byte:
		return big.NewInt(int64(x))
	case byte:
		return big.NewInt(int64(x))
	case eth.Bytes:
		return []byte(x)
	case []byte:
		return x
	case string:
		return x
	case bool:
		return x
	}
	return fmt.Errorf("unrenderable %T", v)
}

func canonEqual(a, b any) bool {
	switch x := a.(type) {
	case nil:
		if b == nil {
			return true
		}
		if y, ok := b.([]byte); ok {
			return len(y) == 0
		}
		return false
	case *big.Int:
		y, ok := b.(*big.Int)
		return ok && x.Cmp(y) == 0
	case []byte:
		if b == nil {
			return len(x) == 0
		}
		y, ok := b.([]byte)
		return ok && bytes.Equal(x, y)
	case string:
		y, ok := b.(string)
		return ok && x == y
	case bool:
		y, ok := b.(bool)
		return ok && x == y
	}
	return false
}

func canonString(v any) string {
	switch x := v.(type) {
	case nil:
		return "NULL"
	case *big.Int:
		return x.String()
	case []byte:
		return "0x" + hex.EncodeToString(x)
	case string:
		return fmt.Sprintf("%q", x)
	case bool:
		return fmt.Sprint(x)
	case error:
		return "ERR(" + x.Error() + ")"
	}
	return fmt.Sprintf("%v", v)
}

func hexRows(rows [][][]byte) string {
	var sb strings.Builder
	for i, r := range rows {
		fmt.Fprintf(&sb, "row%d[", i)
		for j, c := range r {
			if j > 0 {
				sb.WriteString(" ")
			}
			if len(c) > 40 {
				fmt.Fprintf(&sb, "%x…(%d)", c[:8], len(c))
			} else {
				fmt.Fprintf(&sb, "%x", c)
			}
		}
		sb.WriteString("] ")
	}
	return sb.String()
}

// typeStats classifies a type tree for labels / non-triviality rules.
type typeStats struct {
	dynBelowComposite bool // bytes/string or T[] below an array or tuple
	fixedGE10         bool // T[k] with k >= 10
	nestedTuple       bool // tuple inside tuple or array
	tupleArray        bool // array of tuples
	arrays, tuples    int
	depth             int
}

func statsOf(ev *refmodel.Event) typeStats {
	var st typeStats
	var walk func(t *refmodel.Type, depth int, underComposite bool)
	walk = func(t *refmodel.Type, depth int, under bool) {
		if depth > st.depth {
			st.depth = depth
		}
		switch t.Kind {
		case refmodel.KArray:
			st.arrays++
			if t.Len >= 10 {
				st.fixedGE10 = true
			}
			if under && t.Len < 0 {
				st.dynBelowComposite = true
			}
			if t.Elem.Kind == refmodel.KTuple {
				st.tupleArray = true
			}
			walk(t.Elem, depth+1, true)
		case refmodel.KTuple:
			st.tuples++
			if under {
				st.nestedTuple = true
			}
			for _, f := range t.Fields {
				walk(f, depth+1, true)
			}
		case refmodel.KBytes, refmodel.KString:
			if under {
				st.dynBelowComposite = true
			}
		}
	}
	for _, in := range ev.Inputs {
		walk(in, 0, false)
	}
	return st
}

// unselectedDynBeforeSelected: an unselected dynamic input precedes a selected leaf.
func unselectedDynBeforeSelected(ev *refmodel.Event) bool {
	seenDyn := false
	res := false
	var walk func(t *refmodel.Type, sel bool)
	walk = func(t *refmodel.Type, sel bool) {
		sel = sel || t.Column != ""
		switch t.Kind {
		case refmodel.KArray:
			if !sel && !hasSel(t) && t.IsDynamic() {
				seenDyn = true
			}
			walk(t.Elem, sel)
		case refmodel.KTuple:
			for _, f := range t.Fields {
				walk(f, false)
			}
		default:
			if sel && seenDyn {
				res = true
			}
			if !sel && t.IsDynamic() {
				seenDyn = true
			}
		}
	}
	for _, in := range ev.Inputs {
		if !in.Indexed {
			walk(in, false)
		}
	}
	return res
}

func hasSel(t *refmodel.Type) bool {
	if t.Column != "" {
		return true
	}
	switch t.Kind {
	case refmodel.KArray:
		return hasSel(t.Elem)
	case refmodel.KTuple:
		for _, f := range t.Fields {
			if hasSel(f) {
				return true
			}
		}
	}
	return false
}
