package props

// C01 — every block in range is indexed exactly once: table equals declared projection.

import (
	"errors"
	"fmt"
	"math/big"
	"testing"

	"github.com/indexsupply/shovel/shovel"
	"pgregory.net/rapid"

	"verifharness/evid"
	"verifharness/refmodel"
	"verifharness/sim"
)

// checkStepC01 applies oracle (b) of DESIGN.md §5 C01 to one step.
func checkStepC01(m *machine, p *Pair, r StepResult) string {
	if r.Panic != nil {
		return fmt.Sprintf("Converge panicked: %v", r.Panic)
	}
	key := fmt.Sprintf("%s/%s", p.Src.Name, p.Decl.Name)
	tch := touched(r.Commits)
	switch {
	case r.Err == nil:
		if !r.After.OK {
			return "successful step left no recorded position"
		}
		prev := uint64(0)
		switch {
		case r.Before.OK:
			prev = r.Before.Num
		case p.FirstSet:
			prev = p.First - 1
		}
		if r.After.Num <= prev {
			return fmt.Sprintf("successful step did not advance the position (%d -> %d)", prev, r.After.Num)
		}
		if r.After.Num-prev > uint64(p.Src.Batch) {
			return fmt.Sprintf("step advanced %d blocks, batch_size is %d", r.After.Num-prev, p.Src.Batch)
		}
		// rows added only for blocks in (prev, after]; exactly one cursor row (after, hash(after))
		ncur := 0
		for _, c := range r.Commits {
			if len(c.Removed) > 0 {
				return fmt.Sprintf("growth-only step removed rows: %v", c.Removed[0])
			}
			for _, a := range c.Added {
				if a.Table == "shovel.task_updates" {
					ncur++
					if numOf(a.Row["num"]) != r.After.Num {
						return fmt.Sprintf("cursor row for block %d written, position is %d", numOf(a.Row["num"]), r.After.Num)
					}
					continue
				}
				bn := numOf(a.Row["block_num"])
				if bn <= prev || bn > r.After.Num {
					return fmt.Sprintf("step advancing %d -> %d wrote a row for block %d", prev, r.After.Num, bn)
				}
			}
		}
		if ncur != 1 {
			return fmt.Sprintf("successful step wrote %d cursor rows", ncur)
		}
		p.Src.Node.Lock()
		b := p.Src.Node.Chain.At(r.After.Num)
		p.Src.Node.Unlock()
		// (a log-only data plan carries no block hash for blocks without matching logs: empty is allowed)
		if b == nil || len(r.After.Hash) > 0 && string(b.Hash) != string(r.After.Hash) {
			return fmt.Sprintf("recorded position %d carries hash %x, the source's block has %x", r.After.Num, r.After.Hash, hashOrNil(b))
		}
	default:
		// any failure / nothing-new: nothing may have been committed for this pair
		for k, n := range tch {
			if n > 0 {
				return fmt.Sprintf("step returned %q but committed changes to %s", errString(r.Err), k)
			}
		}
		if errors.Is(r.Err, shovel.ErrNothingNew) || errors.Is(r.Err, shovel.ErrDone) || errors.Is(r.Err, shovel.ErrAhead) {
			break
		}
	}
	for k := range tch {
		if len(k) < len(key) || k[len(k)-len(key):] != key {
			return fmt.Sprintf("step of %s touched rows stamped %s", key, k)
		}
	}
	return ""
}

func hashOrNil(b *sim.Block) []byte {
	if b == nil {
		return nil
	}
	return b.Hash
}

func c01Property(rt *rapid.T, ev *evid.Rec, o machineOpts, faults bool) {
	m := newMachine(rt, o)
	defer m.Close()
	w := m.w
	fail := func(f string, a ...any) {
		rt.Fatalf("VERIF-VIOLATION property=C01 %s\n history:\n   %s", fmt.Sprintf(f, a...), m.History())
	}
	// oracle (a) in every database state another session can observe
	aud := NewAuditor(w)
	okSteps, decoyBlocks := 0, false
	faultBudget := 0
	if faults {
		faultBudget = rapid.IntRange(0, 4).Draw(rt, "nfaults")
	}
	var pending *sim.Fault
	pendingKind := "" // "" = the next request, else the next request of this kind
	pendingSkip := 0
	w.SetHook(func(s *SourceCfg, n *sim.Node, ri sim.ReqInfo) *sim.Fault {
		if pending == nil || (pendingKind != "" && ri.Kind != pendingKind) {
			return nil
		}
		if pendingSkip > 0 {
			pendingSkip-- // the fault is meant for a later request of that kind (e.g. a middle partition)
			return nil
		}
		f := pending
		pending = nil
		return f
	})
	check := func(p *Pair, r StepResult) {
		if v := checkStepC01(m, p, r); v != "" {
			fail("%s", v)
		}
		if v := aud.Violation(); v != "" {
			fail("%s", v)
		}
		if r.Err == nil {
			okSteps++
			if v := w.CheckPair(p); v != "" {
				fail("after a successful step: %s", v)
			}
		}
	}
	nsteps := drawActions(rt, 2, 14, 40)
	for i := 0; i < nsteps; i++ {
		switch rapid.IntRange(0, 9).Draw(rt, "action") {
		case 0, 1, 2:
			m.grow(m.pickSource("growsrc"), rapid.IntRange(1, 6).Draw(rt, "grown"))
		case 3:
			if faultBudget > 0 {
				faultBudget--
				pendingKind, pendingSkip = "", 0
				if rapid.Bool().Draw(rt, "targeted") {
					pendingKind = rapid.SampledFrom([]string{"logs", "blocks", "headers", "receipts"}).Draw(rt, "faulton")
					pendingSkip = rapid.IntRange(0, 3).Draw(rt, "faultskip")
				}
				switch rapid.IntRange(0, 5).Draw(rt, "faultkind") {
				case 4, 5:
					// answered by a replica that lags behind the head the task was told about
					pending = &sim.Fault{Lag: rapid.IntRange(1, 4).Draw(rt, "lag")}
					pendingKind, pendingSkip = rapid.SampledFrom([]string{"logs", "logs", "receipts", "blocks", "headers", "traces"}).Draw(rt, "lagkind"), 0
					m.label("lagging-replica")
				case 0:
					pending = &sim.Fault{Status: 503}
				case 1:
					pending = &sim.Fault{BadJSON: true}
				case 2:
					pending = &sim.Fault{CloseConn: true}
				default:
					pending = &sim.Fault{Truncate: rapid.IntRange(1, 60).Draw(rt, "trunc")}
				}
				m.logf("schedule rpc fault %+v on %q", *pending, pendingKind)
				m.label("rpc-fault")
				break
			}
			fallthrough
		default:
			p := m.pickPair("steppair")
			check(p, m.step(p))
		}
	}
	pending = nil
	w.SetHook(nil)
	if msg := m.settle(len(m.decls)+3, check); msg != "" {
		if len(msg) > 12 && msg[:12] == "INCONCLUSIVE" {
			rt.Fatalf("VERIF-INCONCLUSIVE %s", msg)
		}
		fail("%s", msg)
	}
	for _, p := range w.Pairs {
		cur := w.Cursor(p)
		head := p.Src.Node.Chain.Head().Num
		want := head
		if p.Stop > 0 && p.Stop < head {
			want = p.Stop
		}
		if p.Start > head {
			continue // nothing to index yet
		}
		if !cur.OK || cur.Num != want {
			fail("at quiescence %s is at %v, source head is %d (expected position %d)", p.Key(), curStr(cur), head, want)
		}
		if v := w.CheckPair(p); v != "" {
			fail("at quiescence: %s", v)
		}
		// did a block with a decoy produce a row?
		p.Src.Node.Lock()
		for n := p.First; n <= cur.Num && p.FirstSet; n++ {
			if b := p.Src.Node.Chain.At(n); b != nil {
				for _, tx := range b.Txs {
					for _, l := range tx.Logs {
						if l.Kind != "match" {
							decoyBlocks = true
						}
					}
				}
			}
		}
		p.Src.Node.Unlock()
	}
	nontrivial := okSteps >= 2 && decoyBlocks
	labels := []string{fmt.Sprintf("oksteps>=2=%v", okSteps >= 2)}
	for l := range m.labels {
		labels = append(labels, l)
	}
	ev.Case(nontrivial, m.History(), labels...)
	ev.Excluded(m.excl)
	if nontrivial && ev.WantSample(3) {
		ev.Sample(3, map[string]any{"config": m.describeConfig(), "history": m.hist[1:min(len(m.hist), 14)]})
	}
}

func TestC01_Growth(t *testing.T) {
	ev := evid.For("C01", "Growth")
	rapid.Check(t, func(rt *rapid.T) {
		c01Property(rt, ev, machineOpts{MaxDecls: 2, Filters: rapid.IntRange(0, 2).Draw(rt, "withfilters") == 0}, false)
	})
}

func TestC01_GrowthFaults(t *testing.T) {
	ev := evid.For("C01", "GrowthFaults")
	rapid.Check(t, func(rt *rapid.T) {
		c01Property(rt, ev, machineOpts{MaxDecls: 2, Kinds: []string{"log", "tx"}}, true)
	})
}

// traceStallRepro: trace-indexing over a block without any trace.
func traceStallRepro(t fataler) string {
	d := &refmodel.Decl{Name: "tr", Enabled: true, Table: "tr", Filters: map[*refmodel.Type]*refmodel.Filter{},
		Block:   []refmodel.BlockField{{Name: "trace_action_from", Column: "trace_action_from"}},
		Columns: []refmodel.Column{{Name: "trace_action_from", Type: "bytea"}}, Sources: []refmodel.SourceRef{{Name: "src1", Start: 1}}}
	node := sim.NewNode(sim.NewChain())
	mkTx := func(traces int) []sim.Tx {
		tx := sim.Tx{Idx: 0, From: make([]byte, 20), To: make([]byte, 20), Value: big.NewInt(1), GasPrice: big.NewInt(1), V: big.NewInt(1), R: big.NewInt(1), S: big.NewInt(1), EffGasPrice: big.NewInt(1)}
		for i := 0; i < traces; i++ {
			tx.Traces = append(tx.Traces, sim.Trace{From: []byte{1, 2, 3, 4, 5, 6, 7, 8, 9, 10, 11, 12, 13, 14, 15, 16, 17, 18, 19, 20}, To: make([]byte, 20), Value: big.NewInt(5), CallType: "call"})
		}
		return []sim.Tx{tx}
	}
	node.Chain.Append(mkTx(1))
	node.Chain.Append(mkTx(0)) // block 2: no trace at all
	node.Chain.Append(mkTx(2))
	w, err := NewWorld(t, []*SourceCfg{{Name: "src1", ChainID: 1, Batch: 1, Conc: 1, Node: node}}, []*refmodel.Decl{d})
	if w != nil {
		defer w.Close()
	}
	if err != nil {
		return "set-up: " + err.Error()
	}
	var last StepResult
	for i := 0; i < 8; i++ {
		last = w.Step(w.Pairs[0])
	}
	if c := w.Cursor(w.Pairs[0]); !c.OK || c.Num != 3 {
		return fmt.Sprintf("trace integration stuck at %s, head is 3 (last step: %s)", curStr(c), errString(last.Err))
	}
	return w.CheckPair(w.Pairs[0])
}

type quietT struct{}

func (quietT) Fatalf(string, ...any) {}
func (quietT) Logf(string, ...any)   {}

func TestC01_KnownFindings(t *testing.T) {
	knownFinding(t, "C01", "C01/trace-block-empty-result-stalls", func() string { return traceStallRepro(quietT{}) })
	// fixed: batch_size < concurrency used to panic in Task.load
	knownFinding(t, "C01", "C01/batch-lt-concurrency-panics", func() string {
		var out string
		rapid.Check(noFail{t, &out}, func(rt *rapid.T) {
			m := newMachine(rt, machineOpts{MaxDecls: 1, Kinds: []string{"tx"}, MaxBatch: 1, MaxConc: 3, Starts: []string{"one"}})
			defer m.Close()
			m.w.Sources[0].Conc, m.w.Sources[0].Batch = 3, 2
			if err := m.w.Restart(); err != nil {
				rt.Fatalf("restart: %v", err)
			}
			m.grow(m.w.Sources[0], 4)
			for i := 0; i < 4; i++ {
				if r := m.step(m.w.Pairs[0]); r.Panic != nil {
					rt.Fatalf("Converge panicked with batch_size 2 < concurrency 3: %v", r.Panic)
				}
			}
			if v := m.w.CheckPair(m.w.Pairs[0]); v != "" {
				rt.Fatalf("%s", v)
			}
		})
		return out
	})
}
