package props

// C11 — each column receives the value of the field it names, with documented typing.

import (
	"context"
	"fmt"
	"math/big"
	"sync"
	"testing"

	"github.com/indexsupply/shovel/dig"
	"github.com/indexsupply/shovel/eth"
	"github.com/indexsupply/shovel/wctx"
	"github.com/indexsupply/shovel/wpg"
	"pgregory.net/rapid"

	"verifharness/evid"
	"verifharness/gen"
	"verifharness/refmodel"
	"verifharness/sim"
)

// c11Event draws an event: any mix of indexed/non-indexed, selected/unselected
// inputs in any order; sometimes every input indexed (logs without data).
func c11Event(rt *rapid.T) *refmodel.Event {
	if rapid.IntRange(0, 4).Draw(rt, "allindexed") == 0 {
		ev := &refmodel.Event{Name: "Idx" + rapid.StringMatching(`[A-Z][a-z]{0,4}`).Draw(rt, "evname")}
		n := rapid.IntRange(1, 3).Draw(rt, "nidx")
		sel := 0
		for i := 0; i < n; i++ {
			var ty *refmodel.Type
			switch rapid.IntRange(0, 4).Draw(rt, "ik") {
			case 0:
				ty = &refmodel.Type{Kind: refmodel.KAddress}
			case 1:
				ty = &refmodel.Type{Kind: refmodel.KInt, Bits: 8 * rapid.IntRange(1, 32).Draw(rt, "bits")}
			case 2:
				ty = &refmodel.Type{Kind: refmodel.KBool}
			case 3:
				ty = &refmodel.Type{Kind: refmodel.KBytesN, N: rapid.IntRange(1, 32).Draw(rt, "n")}
			default:
				ty = &refmodel.Type{Kind: refmodel.KUint, Bits: 8 * rapid.IntRange(1, 32).Draw(rt, "bits")}
			}
			ty.Name, ty.Indexed = fmt.Sprintf("i%d", i), true
			if rapid.Bool().Draw(rt, "sel") {
				sel++
				ty.Column = fmt.Sprintf("c%d", i+1)
			}
			ev.Inputs = append(ev.Inputs, ty)
		}
		if sel == 0 {
			ev.Inputs[len(ev.Inputs)-1].Column = "c9"
		}
		return ev
	}
	ev := gen.GenEvent(rt, gen.EventOpts{Types: gen.TypeOpts{MaxDepth: 3, MaxTuple: 3, MaxFixed: 4}, MaxInputs: 5, AllowIndexed: true, IndexedComposite: true, SelProb: 50})
	if len(ev.Selected()) == 0 {
		ev.Inputs = append(ev.Inputs, &refmodel.Type{Kind: refmodel.KInt, Bits: 64, Name: "extra", Column: "c90"})
	}
	return ev
}

func c11Decl(rt *rapid.T) *refmodel.Decl {
	d := &refmodel.Decl{Name: "ig", Enabled: true, Table: "tb", Filters: map[*refmodel.Type]*refmodel.Filter{}, Sources: []refmodel.SourceRef{{Name: "src1", Start: 1}}}
	kind := rapid.SampledFrom([]string{"log", "log", "log", "tx", "trace"}).Draw(rt, "kind")
	withEvent := kind == "log"
	if withEvent {
		d.Event = c11Event(rt)
		for _, s := range d.Event.Selected() {
			d.Columns = append(d.Columns, refmodel.Column{Name: s.Column, Type: gen.ColTypeFor(s.Leaf)})
		}
	}
	var fields []string
	for _, f := range c14Allowed(withEvent) {
		isTrace := c14Class(f) == "trace"
		if kind == "tx" && isTrace {
			continue
		}
		p := 35
		if kind == "trace" && isTrace {
			p = 70
		}
		if rapid.IntRange(0, 99).Draw(rt, "f:"+f) < p {
			fields = append(fields, f)
		}
	}
	if kind == "trace" {
		has := false
		for _, f := range fields {
			if c14Class(f) == "trace" {
				has = true
			}
		}
		if !has {
			fields = append(fields, "trace_action_to")
		}
	}
	if kind == "tx" && len(fields) == 0 {
		fields = []string{"tx_value"}
	}
	fields = rapid.Permutation(fields).Draw(rt, "fieldorder")
	for _, f := range fields {
		d.Block = append(d.Block, refmodel.BlockField{Name: f, Column: f})
		d.Columns = append(d.Columns, refmodel.Column{Name: f, Type: gen.FieldColType[f]})
	}
	d.Columns = rapid.Permutation(d.Columns).Draw(rt, "colorder")
	return d
}

// c11Stats: the non-triviality rule of DESIGN.md §5 C11.
func c11Stats(d *refmodel.Decl) (unselBeforeSel, blockFields6 bool) {
	if d.Event != nil {
		seenUnsel := false
		for _, in := range d.Event.Inputs {
			if hasSel(in) {
				if seenUnsel {
					unselBeforeSel = true
				}
			} else {
				seenUnsel = true
			}
		}
	}
	return unselBeforeSel, len(d.Block) >= 6
}

func hasNegative(vals []refmodel.Value) bool {
	for _, v := range vals {
		if v.T.Kind == refmodel.KInt && len(v.Word) == 32 && v.Word[0]&0x80 != 0 {
			return true
		}
		if hasNegative(v.Elems) {
			return true
		}
	}
	return false
}

// TestC11_FullPath: simulated node -> client -> Converge -> COPY -> fake Postgres.
func TestC11_FullPath(t *testing.T) {
	ev := evid.For("C11", "FullPath")
	rapid.Check(t, func(rt *rapid.T) {
		d := c11Decl(rt)
		renamed := false
		if rapid.IntRange(0, 2).Draw(rt, "renamecolumns") == 0 {
			// a field may be stored under a column of any name: what the column holds is decided by the field
			for i := range d.Block {
				b := &d.Block[i]
				if c14Identity[b.Name] || b.Column != b.Name || !rapid.Bool().Draw(rt, "rename:"+b.Name) {
					continue
				}
				nc := "c_" + b.Name
				for j := range d.Columns {
					if d.Columns[j].Name == b.Column {
						d.Columns[j].Name = nc
					}
				}
				for j := range d.Notify {
					if d.Notify[j] == b.Column {
						d.Notify[j] = nc
					}
				}
				b.Column = nc
				renamed = true
			}
		}
		pool := gen.NewPool()
		filtered := false
		if rapid.IntRange(0, 2).Draw(rt, "withfilters") == 0 {
			// a filter decides which rows exist, never what a stored column holds
			// (abi_idx stays the position of the element in its array)
			gen.GenFilters(rt, d, pool)
			filtered = len(d.Filters) > 0
		}
		co := gen.ChainOpts{MaxTxs: 2, MaxLogs: 3, MaxTraces: 2, Pool: pool, Values: gen.ValueOpts{MaxDynLen: 3, MaxBytes: 40}, EveryBlockTraced: d.Kind() == "trace"}
		if d.Event != nil {
			co.Events = []*refmodel.Event{d.Event}
		}
		node := sim.NewNode(sim.NewChain())
		node.ReverseReceiptBatches = rapid.IntRange(0, 2).Draw(rt, "reversedreceipts") == 0
		neg := false
		for i := 0; i < rapid.IntRange(1, 3).Draw(rt, "nblocks"); i++ {
			txs := gen.GenTxs(rt, co)
			for _, tx := range txs {
				for _, l := range tx.Logs {
					if hasNegative(l.Vals) {
						neg = true
					}
				}
			}
			node.Chain.Append(txs)
		}
		w, err := NewWorld(quietT{}, []*SourceCfg{{Name: "src1", ChainID: uint64(rapid.IntRange(1, 100000).Draw(rt, "chainid")), Batch: rapid.IntRange(1, 3).Draw(rt, "batch"), Conc: rapid.IntRange(1, 2).Draw(rt, "conc"), Node: node}}, []*refmodel.Decl{d})
		if w != nil {
			defer w.Close()
		}
		desc := func() string {
			m := &machine{decls: []*refmodel.Decl{d}, w: w}
			return m.describeConfig()
		}
		if err != nil {
			rt.Fatalf("VERIF-VIOLATION property=C11 configuration in the supported domain refused: %v\n %s", err, desc())
		}
		p := w.Pairs[0]
		head := node.Chain.Head().Num
		var last StepResult
		for i := 0; i < 6; i++ {
			last = w.Step(p)
			if last.Panic != nil {
				rt.Fatalf("VERIF-VIOLATION property=C11 Converge panicked: %v\n %s", last.Panic, desc())
			}
		}
		if c := w.Cursor(p); !c.OK || c.Num != head {
			rt.Fatalf("VERIF-VIOLATION property=C11 indexing does not reach the head (%s of %d): %s %s\n %s", curStr(c), head, last.Outcome(), errString(last.Err), desc())
		}
		if v := w.CheckPair(p); v != "" {
			rt.Fatalf("VERIF-VIOLATION property=C11 %s\n %s", v, desc())
		}
		ub, bf6 := c11Stats(d)
		ev.Case(ub || neg || bf6, desc(), fmt.Sprintf("unselBeforeSel=%v", ub), fmt.Sprintf("negative=%v", neg), fmt.Sprintf("blockFields>=6=%v", bf6), fmt.Sprintf("inputFilters=%v", filtered), fmt.Sprintf("renamedColumns=%v", renamed), "kind="+d.Kind())
		if (ub || neg) && ev.WantSample(3) {
			ev.Sample(3, desc())
		}
	})
}

// TestC11_Insert: the row builder alone (dig.Integration.Insert with a capturing
// connection): typed values rendered as pgx would store them vs. the model.
func TestC11_Insert(t *testing.T) {
	ev := evid.For("C11", "Insert")
	rapid.Check(t, func(rt *rapid.T) {
		e := c11Event(rt)
		de := digEvent(e)
		var cols []wpg.Column
		for _, s := range e.Selected() {
			cols = append(cols, wpg.Column{Name: s.Column, Type: gen.ColTypeFor(s.Leaf)})
		}
		bd := []dig.BlockData{{Name: "log_idx", Column: "log_idx"}, {Name: "block_num", Column: "block_num"}, {Name: "tx_idx", Column: "tx_idx"}}
		hasData := false
		for _, s := range e.Selected() {
			if !s.Indexed {
				hasData = true
			}
		}
		if hasData { // the element index exists only where data inputs are selected (as ValidateFix adds it)
			bd = append(bd, dig.BlockData{Name: "abi_idx", Column: "abi_idx"})
		}
		bd = rapid.Permutation(bd).Draw(rt, "bdorder")
		for _, b := range bd {
			cols = append(cols, wpg.Column{Name: b.Column, Type: "numeric"})
		}
		ig, err := dig.New("ig", de, bd, wpg.Table{Name: "t", Columns: cols}, dig.Notification{}, "or")
		if err != nil {
			rt.Fatalf("dig.New: %v", err)
		}
		nlogs := rapid.IntRange(1, 4).Draw(rt, "nlogs")
		blk := eth.Block{Header: eth.Header{Number: 9, Hash: make([]byte, 32), LogsBloom: make([]byte, 256)}}
		tx := eth.Tx{Idx: 3}
		type want struct {
			li   int
			rows [][][]byte
			vals []refmodel.Value
			tps  [][]byte
		}
		var wants []want
		neg := false
		for i := 0; i < nlogs; i++ {
			vals := gen.GenEventValues(rt, e, gen.ValueOpts{MaxDynLen: 3, MaxBytes: 40})
			neg = neg || hasNegative(vals)
			topics, data := e.LogOf(vals)
			l := eth.Log{Idx: eth.Uint64(10 + i), Address: make([]byte, 20), Data: data}
			for _, tp := range topics {
				l.Topics = append(l.Topics, eth.Bytes(tp))
			}
			tx.Logs = append(tx.Logs, l)
			wants = append(wants, want{10 + i, e.DataRows(vals), vals, topics})
		}
		blk.Txs = append(blk.Txs, tx)
		cc := &capConn{}
		ctx := wctx.WithSrcName(context.Background(), "src")
		var ierr error
		if p := catch(func() { _, ierr = ig.Insert(ctx, new(sync.Mutex), cc, []eth.Block{blk}) }); p != nil {
			rt.Fatalf("VERIF-VIOLATION property=C11 Insert panicked: %v\n event=%s", p, eventJSON(e))
		}
		if ierr != nil {
			rt.Fatalf("VERIF-VIOLATION property=C11 Insert failed on well-formed logs: %v\n event=%s", ierr, eventJSON(e))
		}
		colIdx := map[string]int{}
		for i, c := range cc.cols {
			colIdx[c] = i
		}
		// expected rows in order: per log, per data row
		sel := e.Selected()
		topicOf := map[*refmodel.Type]int{}
		k := 1
		for _, in := range e.Inputs {
			if in.Indexed {
				topicOf[in] = k
				k++
			}
		}
		ri := 0
		for _, wl := range wants {
			for ai, dr := range wl.rows {
				if ri >= len(cc.rows) {
					rt.Fatalf("VERIF-VIOLATION property=C11 %d rows emitted, more expected (log %d element %d)\n event=%s", len(cc.rows), wl.li, ai, eventJSON(e))
				}
				row := cc.rows[ri]
				ri++
				di := 0
				for _, s := range sel {
					var wantCell refmodel.Cell
					if s.Indexed {
						wantCell = refmodel.TypedCell(s.Leaf, wl.tps[topicOf[s.Top]])
					} else {
						wantCell = refmodel.TypedCell(s.Leaf, dr[di])
						di++
					}
					got := canon(row[colIdx[s.Column]])
					if !canonEqual(wantCell, got) {
						rt.Fatalf("VERIF-VIOLATION property=C11 column %s (input %s %s, indexed=%v) of log %d element %d holds %s, want %s\n event=%s", s.Column, s.Top.Name, s.Leaf.TypeString(), s.Indexed, wl.li, ai, canonString(got), canonString(wantCell), eventJSON(e))
					}
				}
				for name, wantN := range map[string]int64{"log_idx": int64(wl.li), "abi_idx": int64(ai), "block_num": 9, "tx_idx": 3} {
					if _, ok := colIdx[name]; !ok {
						continue
					}
					got := canon(row[colIdx[name]])
					if !canonEqual(big.NewInt(wantN), got) {
						rt.Fatalf("VERIF-VIOLATION property=C11 column %s holds %s, want %d (log %d element %d)\n event=%s", name, canonString(got), wantN, wl.li, ai, eventJSON(e))
					}
				}
			}
		}
		if ri != len(cc.rows) {
			rt.Fatalf("VERIF-VIOLATION property=C11 %d rows emitted, %d expected\n event=%s", len(cc.rows), ri, eventJSON(e))
		}
		d := &refmodel.Decl{Event: e}
		ub, _ := c11Stats(d)
		ev.Case(ub || neg, eventJSON(e)+fmt.Sprint(nlogs), fmt.Sprintf("unselBeforeSel=%v", ub), fmt.Sprintf("negative=%v", neg), fmt.Sprintf("nodata=%v", len(tx.Logs[0].Data) == 0))
		if ub && ev.WantSample(3) {
			ev.Sample(3, e.Signature())
		}
	})
}
