package props

// The shared indexing state machine (DESIGN.md §4): generated configuration,
// generated chain contents, actions step/grow/reorg/restart/settle.

import (
	"fmt"
	"strings"

	"pgregory.net/rapid"

	"verifharness/gen"
	"verifharness/refmodel"
	"verifharness/sim"
)

type machineOpts struct {
	Kinds       []string
	MaxDecls    int
	NeedParent  bool // every declaration's plan must carry parent hashes
	Filters     bool
	Notify      bool
	ShareTable  bool // declarations may share one destination table
	TwoSources  bool
	MaxBatch    int
	MaxConc     int
	InitBlocks  [2]int
	Starts      []string // "zero", "one", "mid"
	Stops       bool
	Event       gen.EventOpts
	SameEvent   bool // all log declarations use the same event (different selections)
	BatchGEConc bool
	// CustomDecls replaces the generated declarations (names, tables and sources are kept as given).
	CustomDecls func(rt *rapid.T, pool *gen.Pool) []*refmodel.Decl
}

type machine struct {
	beforeStep func(p *Pair) // runs before every step
	rt     *rapid.T
	o      machineOpts
	pool   *gen.Pool
	w      *World
	decls  []*refmodel.Decl
	copts  gen.ChainOpts
	hist   []string // readable history for failure reports
	labels map[string]bool
	excl   int64 // cases where a known-finding class was removed by construction
}

func (m *machine) logf(f string, a ...any) {
	if len(m.hist) < 400 {
		m.hist = append(m.hist, fmt.Sprintf(f, a...))
	}
}

func (m *machine) History() string { return strings.Join(m.hist, "\n   ") }

func (m *machine) label(l string) { m.labels[l] = true }

func newMachine(rt *rapid.T, o machineOpts) *machine {
	m := &machine{rt: rt, o: o, pool: gen.NewPool(), labels: map[string]bool{}}
	if o.MaxDecls == 0 {
		o.MaxDecls = 2
	}
	if o.MaxBatch == 0 {
		o.MaxBatch = 12
	}
	if o.MaxConc == 0 {
		o.MaxConc = 8
	}
	if o.InitBlocks == [2]int{} {
		o.InitBlocks = [2]int{1, 8}
	}
	// the thorough tier explores longer chains
	o.InitBlocks[1] = scale(o.InitBlocks[1], 3*o.InitBlocks[1])
	if len(o.Starts) == 0 {
		o.Starts = []string{"zero", "one", "mid"}
	}
	m.o = o
	nsrc := 1
	if o.TwoSources && rapid.Bool().Draw(rt, "twosrc") {
		nsrc = 2
	}
	var sources []*SourceCfg
	for i := 0; i < nsrc; i++ {
		batch := rapid.IntRange(1, o.MaxBatch).Draw(rt, "batch")
		conc := rapid.IntRange(1, o.MaxConc).Draw(rt, "conc")
		if o.BatchGEConc && batch < conc {
			batch, conc = conc, batch
		}
		chainID := uint64(1 + 9*i)
		if i > 0 && rapid.Bool().Draw(rt, "samechainid") {
			// two providers of one chain (live + backfill): same chain id, different names and nodes
			chainID = sources[0].ChainID
			m.label("same-chain-id")
		}
		sources = append(sources, &SourceCfg{Name: fmt.Sprintf("src%d", i+1), ChainID: chainID, Batch: batch, Conc: conc, Node: sim.NewNode(sim.NewChain()),
			TwoURLs: rapid.IntRange(0, 3).Draw(rt, "twourls") == 0})
		if rapid.IntRange(0, 3).Draw(rt, "strayrange") == 0 {
			sc := sources[len(sources)-1]
			sc.StrayStart = uint64(rapid.IntRange(1, 6).Draw(rt, "straystart"))
			if rapid.Bool().Draw(rt, "straystop") {
				sc.StrayStop = sc.StrayStart + uint64(rapid.IntRange(0, 4).Draw(rt, "straystoplen"))
			}
			m.label("range-on-source-entry")
		}
		switch {
		case batch < conc:
			m.label("batch<conc")
		case batch%conc != 0:
			m.label("batch%conc!=0")
		}
	}
	nd := rapid.IntRange(1, o.MaxDecls).Draw(rt, "ndecls")
	var sharedEv *refmodel.Event
	if o.CustomDecls != nil {
		nd = 0
		m.decls = o.CustomDecls(rt, m.pool)
		for _, d := range m.decls {
			if len(d.Sources) == 0 {
				d.Sources = []refmodel.SourceRef{{Name: sources[0].Name}}
				for _, s := range sources[1:] {
					// (with a second source: some declarations run on both, some on the first only)
					if rapid.Bool().Draw(rt, "customonsrc") {
						d.Sources = append(d.Sources, refmodel.SourceRef{Name: s.Name})
					}
				}
			}
			m.label("kind=" + d.Kind())
		}
	}
	for i := 0; i < nd; i++ {
		table := fmt.Sprintf("t%d", i+1)
		shareWith := -1
		if o.ShareTable && i > 0 && rapid.Bool().Draw(rt, "share") {
			shareWith = rapid.IntRange(0, i-1).Draw(rt, "sharewith")
		}
		name := fmt.Sprintf("ig%d", i+1)
		if o.CustomDecls == nil && rapid.IntRange(0, 5).Draw(rt, "namedlikesource") == 0 {
			// nothing stops an integration from carrying the name of a source
			name = sources[rapid.IntRange(0, len(sources)-1).Draw(rt, "likesrc")].Name
			for _, x := range m.decls {
				if x.Name == name {
					name = fmt.Sprintf("ig%d", i+1)
				}
			}
		}
		do := gen.DeclOpts{Kinds: o.Kinds, NeedParent: o.NeedParent, AllowFilters: o.Filters, AllowNotify: o.Notify, Pool: m.pool,
			Name: name, Table: table, Event: o.Event}
		if o.SameEvent && sharedEv != nil {
			do.FixedEvent = refmodel.CloneEvent(sharedEv, true)
		}
		d := gen.GenDecl(rt, do)
		if d.Event != nil && sharedEv == nil {
			sharedEv = d.Event
		}
		if shareWith >= 0 {
			// open finding C16/shared-table-unique-key-first-wins: integrations with
			// different identity columns cannot share a table; that class is removed
			// by construction (and counted)
			if identitySig(m.decls[shareWith]) == identitySig(d) {
				d.Table = m.decls[shareWith].Table
				m.label("shared-table")
			} else {
				m.excl++
			}
		}
		// which sources
		for si, s := range sources {
			if si > 0 && !rapid.Bool().Draw(rt, "onsrc") {
				continue
			}
			sr := refmodel.SourceRef{Name: s.Name}
			d.Sources = append(d.Sources, sr)
		}
		m.decls = append(m.decls, d)
		m.label("kind=" + d.Kind())
	}
	// tables shared by declarations need the union of columns declared by each
	// (shovel's DDL does that); nothing to do here: ValidateFix/Migrate handle it.

	// chain contents
	m.copts = gen.ChainOpts{MaxTxs: 3, MaxLogs: 3, MaxTraces: 2, Pool: m.pool, Values: gen.ValueOpts{MaxDynLen: 3, MaxBytes: 40, Pool: m.pool}}
	for _, d := range m.decls {
		if d.Kind() == "log" {
			m.copts.Events = append(m.copts.Events, d.Event)
		}
		if d.Kind() == "trace" {
			// open finding C01/trace-block-empty-result-stalls: excluded by construction
			m.copts.EveryBlockTraced = true
		}
	}
	if m.copts.EveryBlockTraced {
		m.excl++
	}
	for _, s := range sources {
		n := rapid.IntRange(o.InitBlocks[0], o.InitBlocks[1]).Draw(rt, "initblocks")
		for i := 0; i < n; i++ {
			s.Node.Chain.Append(gen.GenTxs(rt, m.copts))
		}
	}
	// start / stop per (decl, source)
	for _, d := range m.decls {
		for i := range d.Sources {
			s := sources[0]
			for _, x := range sources {
				if x.Name == d.Sources[i].Name {
					s = x
				}
			}
			head := s.Node.Chain.Head().Num
			switch rapid.SampledFrom(o.Starts).Draw(rt, "start") {
			case "zero":
				d.Sources[i].Start = 0
				m.label("start=head")
			case "one":
				d.Sources[i].Start = 1
			case "mid":
				d.Sources[i].Start = uint64(rapid.IntRange(1, int(head)).Draw(rt, "startat"))
			case "above":
				d.Sources[i].Start = head + uint64(rapid.IntRange(1, 3).Draw(rt, "startabove"))
				m.label("start>head")
			}
			if o.Stops && rapid.Bool().Draw(rt, "hasstop") {
				lo := int(d.Sources[i].Start)
				if lo == 0 {
					lo = int(head)
				}
				d.Sources[i].Stop = uint64(rapid.IntRange(lo, lo+12).Draw(rt, "stop"))
			}
			if rapid.IntRange(0, 2).Draw(rt, "omitzero") == 0 {
				d.Sources[i].OmitZero = true
			} else if rapid.IntRange(0, 3).Draw(rt, "numbersasstrings") == 0 {
				// start / stop given as (zero-padded) decimal strings
				d.Sources[i].Pad = rapid.IntRange(1, 6).Draw(rt, "pad")
				m.label("start-stop-as-strings")
			}
		}
	}
	var wopts []WorldOpt
	if rapid.IntRange(0, 3).Draw(rt, "integrationsindb") == 0 {
		// the integrations were added through the dashboard: loaded from shovel.integrations at every start
		wopts = append(wopts, WithStoredIntegrations())
		m.label("integrations-in-db")
	}
	w, err := NewWorld(rt, sources, m.decls, wopts...)
	m.w = w
	if err != nil {
		if w != nil {
			w.Close()
		}
		rt.Fatalf("VERIF-VIOLATION world set-up failed for a configuration in the supported domain: %v\n config: %s", err, m.describeConfig())
	}
	m.logf("config: %s", m.describeConfig())
	return m
}

func (m *machine) describeConfig() string {
	var sb strings.Builder
	if m.w != nil {
		for _, s := range m.w.Sources {
			fmt.Fprintf(&sb, "[%s batch=%d conc=%d head=%d] ", s.Name, s.Batch, s.Conc, s.Node.Chain.Head().Num)
		}
	}
	for _, d := range m.decls {
		sig := ""
		if d.Event != nil {
			sig = d.Event.Signature()
			var sel []string
			for _, s := range d.Event.Selected() {
				x := s.Column
				if s.Indexed {
					x += "(idx)"
				}
				sel = append(sel, x)
			}
			sig += fmt.Sprintf(" sel=%v", sel)
		}
		var fields []string
		for _, b := range d.Block {
			f := b.Name
			if b.Filter.Active() {
				f += fmt.Sprintf("{%s %v}", b.Filter.Op, b.Filter.Args)
			}
			fields = append(fields, f)
		}
		fmt.Fprintf(&sb, "{%s kind=%s table=%s %s fields=%v agg=%q src=%v} ", d.Name, d.Kind(), d.Table, sig, fields, d.FilterAgg, d.Sources)
	}
	return sb.String()
}

func (m *machine) Close() {
	if m.w != nil {
		m.w.Close()
	}
}

// grow appends n generated blocks to a source.
func (m *machine) grow(s *SourceCfg, n int) {
	s.Node.Lock()
	for i := 0; i < n; i++ {
		s.Node.Chain.Append(gen.GenTxs(m.rt, m.copts))
	}
	h := s.Node.Chain.Head().Num
	s.Node.Unlock()
	m.logf("grow %s +%d -> head %d", s.Name, n, h)
}

func (m *machine) pickPair(label string) *Pair {
	return m.w.Pairs[rapid.IntRange(0, len(m.w.Pairs)-1).Draw(m.rt, label)]
}

func (m *machine) pickSource(label string) *SourceCfg {
	return m.w.Sources[rapid.IntRange(0, len(m.w.Sources)-1).Draw(m.rt, label)]
}

// step runs one Converge and logs it.
func (m *machine) step(p *Pair) StepResult {
	if m.beforeStep != nil {
		m.beforeStep(p)
	}
	r := m.w.Step(p)
	m.logf("step %s: %s %s cursor %v->%v commits=%d", p.Key(), r.Outcome(), errString(r.Err), curStr(r.Before), curStr(r.After), len(r.Commits))
	return r
}

// reconfigure: the operator edits batch_size / concurrency of one or all sources
// before the next start (half of the time nothing changes). Call before Restart.
func (m *machine) reconfigure() {
	if !rapid.Bool().Draw(m.rt, "reconfigure") {
		return
	}
	for _, s := range m.w.Sources {
		batch := rapid.IntRange(1, m.o.MaxBatch).Draw(m.rt, "newbatch")
		if rapid.IntRange(0, 2).Draw(m.rt, "batchone") == 0 {
			batch = 1
		}
		conc := rapid.IntRange(1, m.o.MaxConc).Draw(m.rt, "newconc")
		if m.o.BatchGEConc && batch < conc {
			batch, conc = conc, batch
		}
		if batch != s.Batch || conc != s.Conc {
			m.logf("config edit: %s batch %d->%d conc %d->%d", s.Name, s.Batch, batch, s.Conc, conc)
			m.label("batch-changed")
			s.Batch, s.Conc = batch, conc
		}
	}
}

func curStr(c Cursor) string {
	if !c.OK {
		return "-"
	}
	return fmt.Sprintf("%d/%x", c.Num, c.Hash[:min(4, len(c.Hash))])
}

// settle steps every pair round-robin until none makes progress for `quiet`
// consecutive rounds. Returns an error text when the budget is exhausted.
func (m *machine) settle(quiet int, onStep func(p *Pair, r StepResult)) string {
	budget := 0
	for _, s := range m.w.Sources {
		budget += 3 * (s.Node.Chain.Len() + 4)
	}
	budget = budget*len(m.w.Pairs) + 40
	calm := 0
	lastProgress := 0
	for i := 0; i < budget; i++ {
		progressed := false
		for _, p := range m.w.Pairs {
			r := m.step(p)
			if onStep != nil {
				onStep(p, r)
			}
			if r.Panic != nil {
				return fmt.Sprintf("panic during settle: %v", r.Panic)
			}
			if r.Err == nil || r.After.OK != r.Before.OK || r.After.Num != r.Before.Num {
				progressed = true
			}
		}
		if progressed {
			calm = 0
			lastProgress = i
		} else {
			calm++
			if calm >= quiet {
				return ""
			}
		}
	}
	if lastProgress > budget-quiet-2 {
		return "INCONCLUSIVE: settle budget exhausted while still making progress"
	}
	return "no convergence: steps keep failing without progress"
}

// identitySig: which identity columns shovel adds for a declaration.
func identitySig(d *refmodel.Decl) string {
	sig := d.Kind()
	if d.HasSelectedInputs() {
		for _, s := range d.Event.Selected() {
			if !s.Indexed {
				return sig + "+abi_idx"
			}
		}
	}
	return sig
}

func genTxs(rt *rapid.T, m *machine) []sim.Tx { return gen.GenTxs(rt, m.copts) }

// healRounds: how many times the settle phase lets the chain grow before a task that is
// still off the canonical chain counts as not converging. The client keeps at most five
// cached segments per cache; a task that follows an orphaned fork out of the cache uses up
// one of them per growth round (each is consistent with the previous one, so nothing can
// reveal it) and meets the canonical chain with the first block it has to fetch.
const healRounds = 8

// cloneTxs: block contents are sealed in place when appended to a chain (hashes and
// indexes are written into them), so two chains never share the same values.
func cloneTxs(txs []sim.Tx) []sim.Tx {
	out := make([]sim.Tx, len(txs))
	for i := range txs {
		out[i] = txs[i]
		out[i].Logs = append([]sim.Log{}, txs[i].Logs...)
		out[i].Traces = append([]sim.Trace{}, txs[i].Traces...)
	}
	return out
}
