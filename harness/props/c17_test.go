package props

// C17 — wire codecs are exact and total: hex quantities, hex bytes,
// big-endian ints. Oracles: strconv, encoding/hex, math/big.

import (
	"bytes"
	"encoding/hex"
	"fmt"
	"math/big"
	"strconv"
	"strings"
	"testing"

	"github.com/indexsupply/shovel/bint"
	"github.com/indexsupply/shovel/eth"
	"pgregory.net/rapid"

	"verifharness/evid"
)

func isHex(c byte) bool {
	return c >= '0' && c <= '9' || c >= 'a' && c <= 'f' || c >= 'A' && c <= 'F'
}

func allHex(s string) bool {
	for i := 0; i < len(s); i++ {
		if !isHex(s[i]) {
			return false
		}
	}
	return true
}

// classify a raw JSON token. Returns the interior after `"0x` when the token
// is a well-formed 0x-prefixed JSON string (no quote inside), else ok=false.
func hexInterior(tok string) (string, bool) {
	if len(tok) < 4 || tok[0] != '"' || tok[len(tok)-1] != '"' || tok[1] != '0' || tok[2] != 'x' {
		return "", false
	}
	in := tok[3 : len(tok)-1]
	if strings.ContainsRune(in, '"') {
		return "", false
	}
	return in, true
}

// checkToken applies the C17 oracles for one token to all three decoders.
// It returns a description of the first violation, "" when none.
// nontrivial = the token is 0x-prefixed so the decoder itself had to decide.
func checkToken(tok string) (viol string, nontrivial bool) {
	in, isHexStr := hexInterior(tok)
	nontrivial = isHexStr

	// ---- quantity (eth.Uint64) and eth.Byte
	var (
		u    eth.Uint64
		b    eth.Byte
		uerr error
		berr error
	)
	if p := catch(func() { uerr = u.UnmarshalJSON([]byte(tok)) }); p != nil {
		return fmt.Sprintf("Uint64.UnmarshalJSON(%q) panicked: %v", tok, p), nontrivial
	}
	if p := catch(func() { berr = b.UnmarshalJSON([]byte(tok)) }); p != nil {
		return fmt.Sprintf("Byte.UnmarshalJSON(%q) panicked: %v", tok, p), nontrivial
	}
	if isHexStr {
		switch {
		case len(in) > 0 && !allHex(in):
			if uerr == nil {
				return fmt.Sprintf("Uint64.UnmarshalJSON(%q) accepted a non-hex character (got %d)", tok, uint64(u)), nontrivial
			}
			if berr == nil {
				return fmt.Sprintf("Byte.UnmarshalJSON(%q) accepted a non-hex character (got %d)", tok, byte(b)), nontrivial
			}
		case len(in) > 0: // all hex
			stripped := strings.TrimLeft(in, "0")
			if len(stripped) <= 16 {
				want := uint64(0)
				if stripped != "" {
					want, _ = strconv.ParseUint(stripped, 16, 64)
				}
				if len(in) <= 16 && uerr != nil {
					return fmt.Sprintf("Uint64.UnmarshalJSON(%q) rejected a valid quantity: %v", tok, uerr), nontrivial
				}
				if uerr == nil && uint64(u) != want {
					return fmt.Sprintf("Uint64.UnmarshalJSON(%q) = %d want %d", tok, uint64(u), want), nontrivial
				}
				if want <= 0xff {
					if len(in) <= 16 && berr != nil {
						return fmt.Sprintf("Byte.UnmarshalJSON(%q) rejected a valid byte: %v", tok, berr), nontrivial
					}
					if berr == nil && uint64(b) != want {
						return fmt.Sprintf("Byte.UnmarshalJSON(%q) = %d want %d", tok, byte(b), want), nontrivial
					}
				}
			}
		}
	}

	if isHexStr {
		// the two quantity decoders agree: what one accepts as a value <= 0xff the other accepts as the same value
		switch {
		case uerr == nil && uint64(u) <= 0xff && (berr != nil || uint64(b) != uint64(u)):
			return fmt.Sprintf("Uint64.UnmarshalJSON(%q) = %d but Byte.UnmarshalJSON gives %d, %v", tok, uint64(u), byte(b), berr), nontrivial
		case berr == nil && uerr != nil:
			// (values above 0xff are outside what a Byte can hold; what it does with them is not claimed)
			return fmt.Sprintf("Byte.UnmarshalJSON(%q) = %d although Uint64.UnmarshalJSON refuses the token: %v", tok, byte(b), uerr), nontrivial
		}
	}

	// ---- byte strings (eth.Bytes), fresh destination
	var (
		bs   eth.Bytes
		serr error
	)
	if p := catch(func() { serr = bs.UnmarshalJSON([]byte(tok)) }); p != nil {
		return fmt.Sprintf("Bytes.UnmarshalJSON(%q) panicked: %v", tok, p), nontrivial
	}
	if isHexStr {
		switch {
		case !allHex(in):
			if serr == nil {
				return fmt.Sprintf("Bytes.UnmarshalJSON(%q) accepted a non-hex character (got %x)", tok, []byte(bs)), nontrivial
			}
		case len(in)%2 == 1:
			if serr == nil {
				return fmt.Sprintf("Bytes.UnmarshalJSON(%q) accepted an odd number of digits (got %x)", tok, []byte(bs)), nontrivial
			}
		default:
			want, _ := hex.DecodeString(in)
			if serr != nil {
				return fmt.Sprintf("Bytes.UnmarshalJSON(%q) rejected valid bytes: %v", tok, serr), nontrivial
			}
			if !bytes.Equal(bs, want) {
				return fmt.Sprintf("Bytes.UnmarshalJSON(%q) = %x want %x", tok, []byte(bs), want), nontrivial
			}
		}
	}
	return "", nontrivial
}

// kfC17Over16 is the predicate of known finding C17/quantity-digits-after-16:
// a 0x string with more than 16 characters after the prefix.
func kfC17Over16(tok string) bool {
	in, ok := hexInterior(tok)
	return ok && len(in) > 16
}

const c17Alphabet = "\"0xXfgn\\"

// TestC17_ExhaustiveTokens enumerates every string of length 0..6 over the
// hostile alphabet (299 593 tokens) against all three decoders.
func TestC17_ExhaustiveTokens(t *testing.T) {
	ev := evid.For("C17", "ExhaustiveTokens")
	si, sn := shard()
	var total, idx int
	var buf [6]byte
	var rec func(n, max int)
	rec = func(n, max int) {
		if n == max {
			idx++
			if (idx-1)%sn != si {
				return
			}
			total++
			tok := string(buf[:n])
			viol, nt := checkToken(tok)
			ev.Case(nt, tok)
			if nt {
				ev.Sample(6, tok)
			}
			if viol != "" {
				t.Fatalf("VERIF-VIOLATION property=C17 %s", viol)
			}
			return
		}
		for i := 0; i < len(c17Alphabet); i++ {
			buf[n] = c17Alphabet[i]
			rec(n+1, max)
		}
	}
	for l := 0; l <= 6; l++ {
		rec(0, l)
	}
	ev.Set("exhaustive_tokens_len_0_6", true)
	ev.Set("alphabet", c17Alphabet)
	t.Logf("tokens checked in this shard: %d", total)
}

// TestC17_EveryByte: every one of the 256 byte values substituted for, and inserted before,
// every character of a set of valid quantities / byte strings (the field decoders see raw
// bytes: the JSON library in use does not reject control characters inside strings).
func TestC17_EveryByte(t *testing.T) {
	ev := evid.For("C17", "EveryByte")
	si, sn := shard()
	seeds := []string{"0", "1a", "ff", "AbC", "0100", "1234567", "deadbeef", "fFfFfFfFfFfFfFfF", "00000000000000001", "0000000000000000000000000000000000000000000000000000000000000001"}
	n := 0
	for k, in := range seeds {
		if k%sn != si {
			continue
		}
		for pos := 0; pos <= len(in); pos++ {
			for c := 0; c < 256; c++ {
				var toks []string
				if pos < len(in) {
					toks = append(toks, "\"0x"+in[:pos]+string([]byte{byte(c)})+in[pos+1:]+"\"")
				}
				toks = append(toks, "\"0x"+in[:pos]+string([]byte{byte(c)})+in[pos:]+"\"")
				for _, tok := range toks {
					viol, nt := checkToken(tok)
					n++
					ev.Case(nt && !isHex(byte(c)), tok, fmt.Sprintf("hexdigit=%v", isHex(byte(c))))
					if viol != "" {
						t.Fatalf("VERIF-VIOLATION property=C17 %s", viol)
					}
				}
			}
		}
		ev.Sample(4, map[string]any{"seed": "0x" + in, "positions": len(in) + 1, "bytes": 256})
	}
	ev.Set("exhaustive_byte_substitution", true)
	t.Logf("tokens checked in this shard: %d", n)
}

func genHexCase() *rapid.Generator[string] {
	return rapid.Custom(func(t *rapid.T) string {
		s := []byte(rapid.StringMatching(`[0-9a-fA-F]{0,40}`).Draw(t, "hex"))
		return string(s)
	})
}

// TestC17_Quantities: all uint64 (random + boundaries) x spellings.
func TestC17_Quantities(t *testing.T) {
	ev := evid.For("C17", "Quantities")
	boundaries := []uint64{0, 1, 9, 10, 15, 16, 255, 256, 1<<32 - 1, 1 << 32, 1<<63 - 1, 1 << 63, 1<<64 - 1, 0x0123456789abcdef, 0xfedcba9876543210}
	rapid.Check(t, func(rt *rapid.T) {
		var n uint64
		if rapid.Bool().Draw(rt, "boundary") {
			n = rapid.SampledFrom(boundaries).Draw(rt, "b")
		} else {
			n = rapid.Uint64().Draw(rt, "n")
		}
		digits := strconv.FormatUint(n, 16)
		// spelling: letter case per digit, leading zeros up to 16 digits in total
		lead := rapid.IntRange(0, 16-len(digits)).Draw(rt, "lead")
		digits = strings.Repeat("0", lead) + digits
		db := []byte(digits)
		for i := range db {
			if db[i] >= 'a' && db[i] <= 'f' && rapid.Bool().Draw(rt, "upper") {
				db[i] -= 'a' - 'A'
			}
		}
		tok := `"0x` + string(db) + `"`
		viol, _ := checkToken(tok)
		ev.Case(true, tok, fmt.Sprintf("digits=%d", len(db)))
		ev.Sample(4, tok)
		if viol != "" {
			rt.Fatalf("VERIF-VIOLATION property=C17 %s", viol)
		}
		// a corrupted spelling must be rejected: replace one digit by a non-hex byte
		pos := rapid.IntRange(0, len(db)-1).Draw(rt, "pos")
		bad := rapid.SampledFrom([]byte{'g', 'z', 'G', ' ', '/', ':', '@', '`', '-', '+', '.', 'x', 0x00, 0xff}).Draw(rt, "bad")
		cb := append([]byte{}, db...)
		cb[pos] = bad
		ctok := `"0x` + string(cb) + `"`
		viol, _ = checkToken(ctok)
		ev.Case(true, ctok, "corrupt")
		if viol != "" {
			rt.Fatalf("VERIF-VIOLATION property=C17 %s", viol)
		}
		// helpers
		if got := eth.DecodeUint64(eth.EncodeUint64(n)); got != n {
			rt.Fatalf("VERIF-VIOLATION property=C17 DecodeUint64(EncodeUint64(%d)) = %d", n, got)
		}
		if got := eth.EncodeUint64(n); got != "0x"+strconv.FormatUint(n, 16) {
			rt.Fatalf("VERIF-VIOLATION property=C17 EncodeUint64(%d) = %s", n, got)
		}
	})
}

// TestC17_LongQuantities: 0x strings with more than 16 characters after the
// prefix (garbage after the 16th digit, leading zeros, overflow).
func TestC17_LongQuantities(t *testing.T) {
	ev := evid.For("C17", "LongQuantities")
	rapid.Check(t, func(rt *rapid.T) {
		head := rapid.StringMatching(`[0-9a-fA-F]{16,30}`).Draw(rt, "head")
		var tok string
		switch rapid.IntRange(0, 2).Draw(rt, "kind") {
		case 0: // garbage somewhere after 16 digits
			tail := rapid.StringMatching(`[g-zG-Z !-/]{1,4}`).Draw(rt, "tail")
			tok = `"0x` + head + tail + `"`
		case 1: // leading zeros then a value that fits
			v := rapid.Uint64().Draw(rt, "v")
			z := rapid.IntRange(1, 20).Draw(rt, "z")
			tok = `"0x` + strings.Repeat("0", z) + fmt.Sprintf("%016x", v) + `"`
		default:
			tok = `"0x` + head + `"`
		}
		if strings.Contains(tok[1:len(tok)-1], `"`) {
			rt.Skip()
		}
		viol, _ := checkToken(tok)
		ev.Case(true, tok)
		ev.Sample(4, tok)
		if viol != "" {
			rt.Fatalf("VERIF-VIOLATION property=C17 %s", viol)
		}
	})
}

// TestC17_BytesReuse: arbitrary sequences of decodes into one destination.
func TestC17_BytesReuse(t *testing.T) {
	ev := evid.For("C17", "BytesReuse")
	maxLen := scale(600, 8192)
	rapid.Check(t, func(rt *rapid.T) {
		var dst eth.Bytes
		n := rapid.IntRange(1, 8).Draw(rt, "n")
		var desc []string
		sawFailThenOK, prevFailed, shrank := false, false, false
		prevLen := -1
		for i := 0; i < n; i++ {
			var tok string
			var want []byte
			valid := true
			switch rapid.IntRange(0, 9).Draw(rt, "kind") {
			case 0: // odd digits
				h := rapid.StringMatching(`([0-9a-f]{2}){0,8}[0-9a-f]`).Draw(rt, "odd")
				tok, valid = `"0x`+h+`"`, false
			case 1: // non-hex char
				raw := rapid.SliceOfN(rapid.Byte(), 1, 12).Draw(rt, "raw")
				h := []byte(hex.EncodeToString(raw))
				h[rapid.IntRange(0, len(h)-1).Draw(rt, "pos")] = rapid.SampledFrom([]byte{'g', 'x', ' ', 'Z', '-'}).Draw(rt, "bad")
				tok, valid = `"0x`+string(h)+`"`, false
			case 2: // short / odd tokens
				tok = rapid.SampledFrom([]string{`null`, `""`, `"`, `"0`, `"0x`, `"0x"`, ``, `0`, `1234`}).Draw(rt, "short")
				valid = false
				if tok == `"0x"` || tok == `null` {
					valid, want = true, []byte{}
					if tok == `null` { // null has no defined value: no oracle beyond no-panic
						valid = false
					}
				}
			default:
				ln := rapid.IntRange(0, maxLen).Draw(rt, "len")
				if rapid.IntRange(0, 3).Draw(rt, "small") == 0 {
					ln = rapid.IntRange(0, 40).Draw(rt, "slen")
				}
				want = rapid.SliceOfN(rapid.Byte(), ln, ln).Draw(rt, "bytes")
				h := hex.EncodeToString(want)
				if rapid.Bool().Draw(rt, "upper") {
					h = strings.ToUpper(h)
				}
				tok = `"0x` + h + `"`
			}
			var err error
			if p := catch(func() { err = dst.UnmarshalJSON([]byte(tok)) }); p != nil {
				rt.Fatalf("VERIF-VIOLATION property=C17 Bytes.UnmarshalJSON(%.60q) into reused buffer panicked: %v", tok, p)
			}
			if tok == `null` && err == nil && len(dst) != 0 {
				// a JSON null carries no bytes (a contract creation has "to": null): whether it is
				// refused or read as empty, the destination must not keep what it held before
				rt.Fatalf("VERIF-VIOLATION property=C17 reused destination still holds %x after decoding null without an error history=%v", []byte(dst), desc)
			}
			if valid {
				if err != nil {
					rt.Fatalf("VERIF-VIOLATION property=C17 Bytes.UnmarshalJSON(%.60q) reused: unexpected error %v", tok, err)
				}
				if !bytes.Equal(dst, want) {
					rt.Fatalf("VERIF-VIOLATION property=C17 reused destination holds %x after decoding %.60q (want %x) history=%v", []byte(dst), tok, want, desc)
				}
				if prevFailed {
					sawFailThenOK = true
				}
				if prevLen > len(want) {
					shrank = true
				}
				prevLen = len(want)
				prevFailed = false
			} else {
				_, isHexStr := hexInterior(tok)
				if isHexStr && err == nil {
					rt.Fatalf("VERIF-VIOLATION property=C17 Bytes.UnmarshalJSON(%.60q) reused: accepted invalid input", tok)
				}
				prevFailed = true
			}
			if len(tok) > 24 {
				desc = append(desc, fmt.Sprintf("%s…(%d)", tok[:24], len(tok)))
			} else {
				desc = append(desc, tok)
			}
			// Write() path on the same destination
			if rapid.IntRange(0, 4).Draw(rt, "write") == 0 {
				w := rapid.SliceOfN(rapid.Byte(), 0, 64).Draw(rt, "w")
				dst.Write(w)
				if !bytes.Equal(dst, w) {
					rt.Fatalf("VERIF-VIOLATION property=C17 Bytes.Write left %x want %x", []byte(dst), w)
				}
				prevLen = len(w)
			}
		}
		ev.Case(sawFailThenOK || shrank, strings.Join(desc, ";"), fmt.Sprintf("failThenOK=%v", sawFailThenOK), fmt.Sprintf("shrank=%v", shrank))
		if sawFailThenOK || shrank {
			ev.Sample(3, desc)
		}
	})
}

// TestC17_HexHelpers: eth.DecodeHex / EncodeHex with odd-length handling.
func TestC17_HexHelpers(t *testing.T) {
	ev := evid.For("C17", "HexHelpers")
	rapid.Check(t, func(rt *rapid.T) {
		raw := rapid.SliceOfN(rapid.Byte(), 0, 200).Draw(rt, "raw")
		enc := eth.EncodeHex(raw)
		if enc != "0x"+hex.EncodeToString(raw) {
			rt.Fatalf("VERIF-VIOLATION property=C17 EncodeHex(%x) = %s", raw, enc)
		}
		if got := eth.DecodeHex(enc); !bytes.Equal(got, raw) {
			rt.Fatalf("VERIF-VIOLATION property=C17 DecodeHex(EncodeHex(%x)) = %x", raw, got)
		}
		// spellings: optional prefix (0x/0X), odd number of digits, upper case
		h := rapid.StringMatching(`[0-9a-fA-F]{0,41}`).Draw(rt, "h")
		prefix := rapid.SampledFrom([]string{"", "0x", "0X"}).Draw(rt, "prefix")
		if prefix == "" && len(h) >= 2 && h[0] == '0' && (h[1] == 'x' || h[1] == 'X') {
			rt.Skip()
		}
		padded := h
		if len(padded)%2 == 1 {
			padded = "0" + padded
		}
		want, _ := hex.DecodeString(padded)
		got := eth.DecodeHex(prefix + h)
		if !bytes.Equal(got, want) {
			rt.Fatalf("VERIF-VIOLATION property=C17 DecodeHex(%q) = %x want %x", prefix+h, got, want)
		}
		ev.Case(len(h)%2 == 1 || prefix != "0x", prefix+h, "prefix="+prefix, fmt.Sprintf("odd=%v", len(h)%2 == 1))
		ev.Sample(3, prefix+h)
		if len(h) > 0 && len(strings.TrimLeft(h, "0")) <= 16 {
			wantN := new(big.Int)
			wantN.SetString(h, 16)
			if gotN := eth.DecodeUint64(prefix + h); gotN != wantN.Uint64() {
				rt.Fatalf("VERIF-VIOLATION property=C17 DecodeUint64(%q) = %d want %s", prefix+h, gotN, wantN)
			}
		}
	})
}

// TestC17_Bint: big-endian encode/decode round-trips with any padding 1..32.
func TestC17_Bint(t *testing.T) {
	ev := evid.For("C17", "Bint")
	rapid.Check(t, func(rt *rapid.T) {
		var n uint64
		switch rapid.IntRange(0, 2).Draw(rt, "k") {
		case 0:
			n = rapid.Uint64().Draw(rt, "n")
		case 1:
			n = uint64(1)<<rapid.IntRange(0, 63).Draw(rt, "sh") - uint64(rapid.IntRange(0, 1).Draw(rt, "m"))
		default:
			n = rapid.Uint64Range(0, 70000).Draw(rt, "small")
		}
		min := new(big.Int).SetUint64(n).Bytes()
		if n == 0 {
			min = []byte{0}
		}
		got := bint.Encode(nil, n)
		if !bytes.Equal(got, min) {
			rt.Fatalf("VERIF-VIOLATION property=C17 bint.Encode(nil,%d) = %x want %x", n, got, min)
		}
		if d := bint.Decode(got); d != n {
			rt.Fatalf("VERIF-VIOLATION property=C17 bint.Decode(Encode(nil,%d)) = %d", n, d)
		}
		w := rapid.IntRange(len(min), 32).Draw(rt, "pad")
		buf := make([]byte, w)
		got = bint.Encode(buf, n)
		want := make([]byte, w)
		copy(want[w-len(min):], min)
		if n == 0 {
			want = make([]byte, w)
		}
		if !bytes.Equal(got, want) {
			rt.Fatalf("VERIF-VIOLATION property=C17 bint.Encode(pad %d, %d) = %x want %x", w, n, got, want)
		}
		if d := bint.Decode(got); d != n {
			rt.Fatalf("VERIF-VIOLATION property=C17 bint.Decode(%x) = %d want %d", got, d, n)
		}
		// too-small buffers must be refused (documented panic), never written past
		if len(min) > 1 {
			small := make([]byte, rapid.IntRange(1, len(min)-1).Draw(rt, "small"))
			if p := catch(func() { bint.Encode(small, n) }); p == nil {
				rt.Fatalf("VERIF-VIOLATION property=C17 bint.Encode accepted a %d-byte buffer for %d", len(small), n)
			}
		}
		// Decode of arbitrary bytes = value modulo 2^64
		raw := rapid.SliceOfN(rapid.Byte(), 0, 40).Draw(rt, "raw")
		wantN := new(big.Int).SetBytes(raw)
		wantN.And(wantN, new(big.Int).SetUint64(^uint64(0)))
		if d := bint.Decode(raw); d != wantN.Uint64() {
			rt.Fatalf("VERIF-VIOLATION property=C17 bint.Decode(%x) = %d want %s", raw, d, wantN)
		}
		ev.Case(w > len(min), fmt.Sprintf("%d/%d/%x", n, w, raw), fmt.Sprintf("pad=%d", w))
		ev.Sample(3, map[string]any{"n": n, "pad": w})
	})
}

// FuzzC17Token: native coverage-guided fuzzing of the token oracles (thorough tier).
func FuzzC17Token(f *testing.F) {
	for _, s := range []string{`"0x2a"`, `"0x1167e6e"`, `null`, `""`, `"0x"`, `"0xzz"`, `"0xdeadbeef"`, `"0x0000000000000000ff"`, `"0xffffffffffffffffzz"`, `"0X1F"`, `"`, `"0`} {
		f.Add([]byte(s))
	}
	f.Fuzz(func(t *testing.T, b []byte) {
		tok := string(b)
		if kfC17Excluded(tok) {
			return
		}
		if viol, _ := checkToken(tok); viol != "" {
			t.Fatalf("VERIF-VIOLATION property=C17 %s", viol)
		}
	})
}

// kfC17Excluded: token classes removed from the fuzz search because an open
// known finding already covers them.
func kfC17Excluded(tok string) bool { return false }

// TestC17_KnownFindings re-executes the reproductions of listed findings.
func TestC17_KnownFindings(t *testing.T) {
	knownFinding(t, "C17", "C17/quantity-digits-after-16", func() string {
		for _, tok := range []string{`"0xffffffffffffffffzz"`, `"0x0000000000000000ff"`, `"0x10000000000000000"`} {
			if v, _ := checkToken(tok); v != "" {
				return v
			}
		}
		return ""
	})
}
