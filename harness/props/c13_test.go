package props

// C13 — only logs of the declared event are decoded: signature hash and topic count.

import (
	"bytes"
	"context"
	"encoding/hex"
	"encoding/json"
	"fmt"
	"strings"
	"sync"
	"testing"

	"github.com/indexsupply/shovel/dig"
	"github.com/indexsupply/shovel/eth"
	"github.com/indexsupply/shovel/shovel"
	"github.com/indexsupply/shovel/shovel/config"
	"github.com/indexsupply/shovel/wctx"
	"github.com/indexsupply/shovel/wpg"
	"github.com/jackc/pgx/v5/pgxpool"
	"pgregory.net/rapid"

	"verifharness/evid"
	"verifharness/gen"
	"verifharness/refmodel"
	"verifharness/sim"
)

// well-known mainnet event topics (fixed vectors for both Keccak implementations)
var knownTopics = map[string]string{
	"Transfer(address,address,uint256)":                     "ddf252ad1be2c89b69c2b068fc378daa952ba7f163c4a11628f55a4df523b3ef",
	"Approval(address,address,uint256)":                     "8c5be1e5ebec7d5bd14f71427d1e84f3dd0314c0f7b2291e5b200ac8c7c3b925",
	"ApprovalForAll(address,address,bool)":                  "17307eab39ab6107e8899845ad3d59bd9653f200f220920489ca2b5937696c31",
	"Swap(address,uint256,uint256,uint256,uint256,address)": "d78ad95fa46c994b6551d0da85fc275fe613ce37657fb8d5e3d130840159d822",
	"OrderFulfilled(bytes32,address,address,address,(uint8,address,uint256,uint256)[],(uint8,address,uint256,uint256,address)[])": "9d9af8e38d66c62e2c12f0225249fd9d721c54b83f48d9352c97c6cacdcb6f31",
	"": "c5d2460186f7233c927e7db2dcc703c0e500b653ca82273b7bfad8045d85a470",
}

func TestC13_KnownVectors(t *testing.T) {
	ev := evid.For("C13", "KnownVectors")
	for sig, want := range knownTopics {
		got := hex.EncodeToString(refmodel.Keccak256([]byte(sig)))
		if got != want {
			t.Fatalf("VERIF-INCONCLUSIVE reference Keccak is wrong for %q: %s", sig, got)
		}
		if got := hex.EncodeToString(eth.Keccak([]byte(sig))); got != want {
			t.Fatalf("VERIF-VIOLATION property=C13 eth.Keccak(%q) = %s want %s", sig, got, want)
		}
		ev.Case(true, sig)
		ev.Sample(3, sig)
	}
	// Seaport OrderFulfilled through the ABI JSON path
	item := func(n int) *refmodel.Type {
		tu := &refmodel.Type{Kind: refmodel.KTuple}
		tu.Fields = append(tu.Fields, &refmodel.Type{Kind: refmodel.KUint, Bits: 8, Name: "itemType"}, &refmodel.Type{Kind: refmodel.KAddress, Name: "token"},
			&refmodel.Type{Kind: refmodel.KUint, Bits: 256, Name: "identifier"}, &refmodel.Type{Kind: refmodel.KUint, Bits: 256, Name: "amount"})
		if n == 5 {
			tu.Fields = append(tu.Fields, &refmodel.Type{Kind: refmodel.KAddress, Name: "recipient"})
		}
		return &refmodel.Type{Kind: refmodel.KArray, Len: -1, Elem: tu}
	}
	sea := &refmodel.Event{Name: "OrderFulfilled", Inputs: []*refmodel.Type{
		{Kind: refmodel.KBytesN, N: 32, Name: "orderHash"}, {Kind: refmodel.KAddress, Name: "offerer", Indexed: true}, {Kind: refmodel.KAddress, Name: "zone", Indexed: true},
		{Kind: refmodel.KAddress, Name: "recipient"}, item(4), item(5)}}
	sea.Inputs[4].Name, sea.Inputs[5].Name = "offer", "consideration"
	de := digEvent(sea)
	if got := hex.EncodeToString(de.SignatureHash()); got != knownTopics[sea.Signature()] {
		t.Fatalf("VERIF-VIOLATION property=C13 SignatureHash(%s) = %s", de.Signature(), got)
	}
}

// TestC13_Signature: canonical signature and hash vs. the reference model, and
// eth.Keccak vs. the stand-alone Keccak on arbitrary bytes.
func TestC13_Signature(t *testing.T) {
	ev := evid.For("C13", "Signature")
	rapid.Check(t, func(rt *rapid.T) {
		e := gen.GenEvent(rt, gen.EventOpts{Types: gen.TypeOpts{MaxDepth: 4, MaxTuple: 4, MaxFixed: 40}, MaxInputs: 5, AllowIndexed: true, SelProb: 30})
		de := digEvent(e)
		if got, want := de.Signature(), e.Signature(); got != want {
			rt.Fatalf("VERIF-VIOLATION property=C13 Signature = %q want %q (abi %s)", got, want, eventJSON(e))
		}
		if got, want := de.SignatureHash(), e.SigHash(); !bytes.Equal(got, want) {
			rt.Fatalf("VERIF-VIOLATION property=C13 SignatureHash(%s) = %x want %x", e.Signature(), got, want)
		}
		raw := rapid.SliceOfN(rapid.Byte(), 0, 300).Draw(rt, "raw")
		if got, want := eth.Keccak(raw), refmodel.Keccak256(raw); !bytes.Equal(got, want) {
			rt.Fatalf("VERIF-VIOLATION property=C13 Keccak(%x) = %x, reference %x", raw, got, want)
		}
		st := statsOf(e)
		ev.Case(st.nestedTuple || st.tupleArray, e.Signature(), fmt.Sprintf("nestedTuple=%v", st.nestedTuple), fmt.Sprintf("tupleArray=%v", st.tupleArray))
		if st.nestedTuple || st.tupleArray {
			ev.Sample(4, e.Signature())
		}
	})
}

type c13Log struct {
	kind   string
	topics [][]byte
	data   []byte
	match  bool
}

// TestC13_Gate: rows are emitted iff topic0 == hash and topic count matches.
func TestC13_Gate(t *testing.T) {
	ev := evid.For("C13", "Gate")
	rapid.Check(t, func(rt *rapid.T) {
		e := gen.GenEvent(rt, gen.EventOpts{Types: gen.TypeOpts{MaxDepth: 2, MaxTuple: 3, MaxFixed: 3}, MaxInputs: 4, AllowIndexed: true, IndexedComposite: true, SelProb: 60})
		// make sure something is selected so that the integration is log-indexing
		if len(e.Selected()) == 0 {
			e.Inputs[0].Column = "c99"
			if !e.Inputs[0].IsLeaf() || e.Inputs[0].Kind == refmodel.KBytes || e.Inputs[0].Kind == refmodel.KString {
				e.Inputs = append(e.Inputs, &refmodel.Type{Kind: refmodel.KUint, Bits: 256, Name: "extra", Column: "c98"})
				e.Inputs[0].Column = ""
			}
		}
		de := digEvent(e)
		var cols []wpg.Column
		for _, s := range e.Selected() {
			cols = append(cols, wpg.Column{Name: s.Column, Type: "bytea"})
		}
		bd := []dig.BlockData{{Name: "log_idx", Column: "log_idx"}}
		cols = append(cols, wpg.Column{Name: "log_idx", Type: "int"})
		ig, err := dig.New("ig", de, bd, wpg.Table{Name: "t", Columns: cols}, dig.Notification{}, "or")
		if err != nil {
			rt.Fatalf("dig.New: %v", err)
		}
		nIdx := e.NumIndexed()
		sighash := e.SigHash()
		vals := gen.GenEventValues(rt, e, gen.ValueOpts{MaxDynLen: 2, MaxBytes: 40})
		topics, data := e.LogOf(vals)
		wantRows := len(e.DataRows(vals))
		onlyIndexedSelected := true
		for _, s := range e.Selected() {
			if !s.Indexed {
				onlyIndexedSelected = false
			}
		}
		_ = onlyIndexedSelected
		word := func(label string) []byte { return rapid.SliceOfN(rapid.Byte(), 32, 32).Draw(rt, label) }
		var logs []c13Log
		n := rapid.IntRange(1, 6).Draw(rt, "nlogs")
		decoyLayout := false
		for i := 0; i < n; i++ {
			switch rapid.IntRange(0, 6).Draw(rt, "kind") {
			case 0, 1:
				logs = append(logs, c13Log{"match", topics, data, true})
			case 2: // same hash, other topic count (a same-named event with another indexed layout)
				cnt := rapid.IntRange(0, 4).Draw(rt, "cnt")
				if cnt == nIdx {
					cnt = (cnt + 1) % 5
				}
				tp := [][]byte{sighash}
				for j := 0; j < cnt; j++ {
					if j+1 < len(topics) {
						tp = append(tp, topics[j+1])
					} else {
						tp = append(tp, word("extra"))
					}
				}
				decoyLayout = true
				logs = append(logs, c13Log{fmt.Sprintf("samehash-%dtopics", cnt), tp, data, false})
			case 3: // other hash, right count
				tp := append([][]byte{word("otherhash")}, topics[1:]...)
				logs = append(logs, c13Log{"otherhash", tp, data, false})
			case 4: // hash of a similar signature (same name, one type changed)
				alt := *e
				alt.Name = e.Name + "x"
				tp := append([][]byte{alt.SigHash()}, topics[1:]...)
				logs = append(logs, c13Log{"similarsig", tp, data, false})
			case 5: // no topics at all
				logs = append(logs, c13Log{"notopics", nil, data, false})
			default: // one-bit difference in the hash
				h := append([]byte{}, sighash...)
				h[rapid.IntRange(0, 31).Draw(rt, "byte")] ^= 1 << rapid.IntRange(0, 7).Draw(rt, "bit")
				tp := append([][]byte{h}, topics[1:]...)
				logs = append(logs, c13Log{"bitflip", tp, data, false})
			}
		}
		// one block, one tx, all logs; log_idx identifies which log produced a row
		b := eth.Block{Header: eth.Header{Number: 7, Hash: make([]byte, 32)}}
		tx := eth.Tx{Idx: 0}
		for i, l := range logs {
			el := eth.Log{Idx: eth.Uint64(i), Address: make([]byte, 20), Data: l.data}
			for _, tp := range l.topics {
				el.Topics = append(el.Topics, eth.Bytes(tp))
			}
			tx.Logs = append(tx.Logs, el)
		}
		b.Txs = append(b.Txs, tx)
		cc := &capConn{}
		ctx := wctx.WithSrcName(context.Background(), "src")
		var ierr error
		if p := catch(func() { _, ierr = ig.Insert(ctx, new(sync.Mutex), cc, []eth.Block{b}) }); p != nil {
			rt.Fatalf("VERIF-VIOLATION property=C13 Insert panicked: %v\n event=%s", p, eventJSON(e))
		}
		if ierr != nil {
			rt.Fatalf("VERIF-VIOLATION property=C13 Insert failed on a block of matching and decoy logs: %v\n event=%s", ierr, eventJSON(e))
		}
		per := map[int]int{}
		liCol := -1
		for i, c := range cc.cols {
			if c == "log_idx" {
				liCol = i
			}
		}
		for _, r := range cc.rows {
			per[int(r[liCol].(eth.Uint64))]++
		}
		var desc []string
		for i, l := range logs {
			desc = append(desc, l.kind)
			want := 0
			if l.match {
				want = wantRows
			}
			if per[i] != want {
				rt.Fatalf("VERIF-VIOLATION property=C13 log %d (%s, %d topics, indexed inputs %d) produced %d rows, want %d\n event=%s", i, l.kind, len(l.topics), nIdx, per[i], want, eventJSON(e))
			}
		}
		st := statsOf(e)
		ev.Case(decoyLayout || st.nestedTuple || st.tupleArray, e.Signature()+fmt.Sprint(desc), fmt.Sprintf("decoyLayout=%v", decoyLayout), fmt.Sprintf("indexed=%d", nIdx))
		if decoyLayout {
			ev.Sample(4, map[string]any{"signature": e.Signature(), "indexed": nIdx, "logs": desc})
		}
	})
}

// TestC13_SeveralIntegrations: the hash an integration was built with is its own for
// as long as it lives — several integrations are built (and arbitrary other data is
// hashed) before any of them is used; afterwards every held hash value, the topic
// each integration asks the source for, and the gate of each integration are checked.
func TestC13_SeveralIntegrations(t *testing.T) {
	ev := evid.For("C13", "SeveralIntegrations")
	rapid.Check(t, func(rt *rapid.T) {
		k := rapid.IntRange(2, 5).Draw(rt, "nintegrations")
		type one struct {
			e     *refmodel.Event
			held  []byte // the slice SignatureHash returned, not copied
			raw   []byte
			heldK []byte // the slice eth.Keccak(raw) returned, not copied
			ig    dig.Integration
			ig2   dig.Integration
		}
		var all []*one
		seen := map[string]bool{}
		for i := 0; i < k; i++ {
			e := gen.GenEvent(rt, gen.EventOpts{Types: gen.TypeOpts{MaxDepth: 1, MaxTuple: 2, MaxFixed: 2}, MaxInputs: 3, AllowIndexed: true, IndexedComposite: true, SelProb: 60})
			e.Name = fmt.Sprintf("%s%d", e.Name, i)
			e.Inputs = append(e.Inputs, &refmodel.Type{Kind: refmodel.KUint, Bits: 256, Name: "extra", Column: "c98"})
			if seen[e.Signature()] {
				continue
			}
			seen[e.Signature()] = true
			de := digEvent(e)
			o := &one{e: e, held: de.SignatureHash(), raw: rapid.SliceOfN(rapid.Byte(), 0, 80).Draw(rt, "raw")}
			o.heldK = eth.Keccak(o.raw)
			var cols []wpg.Column
			for _, s := range e.Selected() {
				cols = append(cols, wpg.Column{Name: s.Column, Type: "bytea"})
			}
			cols = append(cols, wpg.Column{Name: "log_idx", Type: "int"})
			ig, err := dig.New(fmt.Sprintf("ig%d", i), de, []dig.BlockData{{Name: "log_idx", Column: "log_idx"}}, wpg.Table{Name: "t", Columns: cols}, dig.Notification{}, "or")
			if err != nil {
				rt.Fatalf("dig.New: %v", err)
			}
			o.ig = ig
			// a second destination built from the same parsed declaration (second source
			// of the integration, or the next generation after a restart)
			ig2, err := dig.New(fmt.Sprintf("ig%d", i), de, []dig.BlockData{{Name: "log_idx", Column: "log_idx"}}, wpg.Table{Name: "t", Columns: cols}, dig.Notification{}, "or")
			if err != nil {
				rt.Fatalf("VERIF-VIOLATION property=C13 building a second integration from the same declaration failed: %v (%s)", err, e.Signature())
			}
			o.ig2 = ig2
			if got := de.SignatureHash(); !bytes.Equal(got, e.SigHash()) {
				rt.Fatalf("VERIF-VIOLATION property=C13 after integrations were built from it the declaration hashes to %x (signature %q), want %x (%s)", got, de.Signature(), e.SigHash(), e.Signature())
			}
			all = append(all, o)
		}
		for i, o := range all {
			want := o.e.SigHash()
			if !bytes.Equal(o.held, want) {
				rt.Fatalf("VERIF-VIOLATION property=C13 the signature hash returned for %s changed to %x after %d other hashes were computed (want %x)", o.e.Signature(), o.held, len(all)-i-1, want)
			}
			if w := refmodel.Keccak256(o.raw); !bytes.Equal(o.heldK, w) {
				rt.Fatalf("VERIF-VIOLATION property=C13 the value Keccak(%x) returned changed to %x after later calls (want %x)", o.raw, o.heldK, w)
			}
			for which, g := range []dig.Integration{o.ig, o.ig2} {
				f := g.Filter()
				tp := f.Topics()
				if len(tp) != 1 || len(tp[0]) != 1 || !strings.EqualFold(strings.TrimPrefix(tp[0][0], "0x"), hex.EncodeToString(want)) {
					rt.Fatalf("VERIF-VIOLATION property=C13 integration %d of %d (%s, build #%d from its declaration) asks the source for topic %v, its signature hash is %x", i, len(all), o.e.Signature(), which+1, tp, want)
				}
			}
			// the gate: a log of its own event gives rows, a log of every other event gives none
			for j, other := range all {
				vals := gen.GenEventValues(rt, other.e, gen.ValueOpts{MaxDynLen: 2, MaxBytes: 20})
				topics, data := other.e.LogOf(vals)
				l := eth.Log{Idx: 1, Address: make([]byte, 20), Data: data}
				for _, x := range topics {
					l.Topics = append(l.Topics, eth.Bytes(x))
				}
				blk := eth.Block{Header: eth.Header{Number: 9, Hash: make([]byte, 32), LogsBloom: make([]byte, 256)}}
				tx := eth.Tx{Idx: 0}
				tx.Logs = append(tx.Logs, l)
				blk.Txs = append(blk.Txs, tx)
				cc := &capConn{}
				ctx := wctx.WithChainID(wctx.WithSrcName(context.Background(), "src"), 1)
				var ierr error
				target := o.ig
				if j%2 == 1 || (j == i && rapid.Bool().Draw(rt, "second")) {
					target = o.ig2
				}
				if p := catch(func() { _, ierr = target.Insert(ctx, new(sync.Mutex), cc, []eth.Block{blk}) }); p != nil {
					rt.Fatalf("VERIF-VIOLATION property=C13 Insert panicked: %v", p)
				}
				wantRows := 0
				if j == i {
					wantRows = len(other.e.DataRows(vals))
				}
				if ierr == nil && len(cc.rows) != wantRows {
					rt.Fatalf("VERIF-VIOLATION property=C13 integration for %s emitted %d rows for a log of %s (want %d)", o.e.Signature(), len(cc.rows), other.e.Signature(), wantRows)
				}
				if ierr != nil && j == i {
					rt.Fatalf("VERIF-VIOLATION property=C13 integration for %s fails on its own log: %v", o.e.Signature(), ierr)
				}
			}
		}
		ev.Case(len(all) >= 2, fmt.Sprint(len(all), all[0].e.Signature()), fmt.Sprintf("integrations=%d", len(all)))
		if ev.WantSample(3) {
			var sigs []string
			for _, o := range all {
				sigs = append(sigs, o.e.Signature())
			}
			ev.Sample(3, sigs)
		}
	})
}

// TestC13_StoredIntegrations: integrations stored in shovel.integrations (as the
// dashboard stores them) are loaded back by config.Integrations; every loaded
// declaration must hash to the topic of the declaration that was stored under its
// name, with the indexed layout that was stored, and its gate must accept a log of
// its own event — whatever else is stored next to it.
func TestC13_StoredIntegrations(t *testing.T) {
	ev := evid.For("C13", "StoredIntegrations")
	pg, _ := env()
	rapid.Check(t, func(rt *rapid.T) {
		k := rapid.IntRange(2, 4).Draw(rt, "nstored")
		name := fmt.Sprintf("stored%d", dbSeq.Add(1))
		db := pg.NewDB(name)
		db.ApplyShovelSchema()
		defer pg.DropDB(name)
		pool, err := pgxpool.New(context.Background(), pg.URL(name))
		if err != nil {
			rt.Fatalf("VERIF-INCONCLUSIVE pool: %v", err)
		}
		defer pool.Close()
		byName := map[string]*refmodel.Event{}
		var order []string
		sameShape := false
		for i := 0; i < k; i++ {
			var e *refmodel.Event
			if i > 0 && rapid.Bool().Draw(rt, "variant") {
				// same name and types as an earlier one, other indexed flags / selections (ERC-20 vs ERC-721 Transfer)
				e = refmodel.CloneEvent(byName[order[rapid.IntRange(0, i-1).Draw(rt, "of")]], true)
				for _, in := range e.Inputs {
					if in.IsLeaf() && in.Kind != refmodel.KBytes && in.Kind != refmodel.KString && rapid.Bool().Draw(rt, "flip") {
						in.Indexed = !in.Indexed
					}
				}
				sameShape = true
			} else {
				e = gen.GenEvent(rt, gen.EventOpts{Types: gen.TypeOpts{MaxDepth: 1, MaxTuple: 2, MaxFixed: 2}, MaxInputs: 4, AllowIndexed: true, IndexedComposite: true, SelProb: 70})
			}
			if len(e.Selected()) == 0 {
				e.Inputs = append(e.Inputs, &refmodel.Type{Kind: refmodel.KUint, Bits: 256, Name: "extra", Column: "c98"})
			}
			d := &refmodel.Decl{Name: fmt.Sprintf("ig%d", i), Enabled: true, Table: "t", Event: e, Filters: map[*refmodel.Type]*refmodel.Filter{}, Sources: []refmodel.SourceRef{{Name: "src1", Start: 1}}}
			for _, s := range e.Selected() {
				d.Columns = append(d.Columns, refmodel.Column{Name: s.Column, Type: "bytea"})
			}
			conf, _ := json.Marshal(d.JSON())
			if _, err := pool.Exec(context.Background(), `insert into shovel.integrations(name, conf) values ($1, $2)`, d.Name, conf); err != nil {
				rt.Fatalf("VERIF-INCONCLUSIVE storing: %v", err)
			}
			byName[d.Name] = e
			order = append(order, d.Name)
		}
		loaded, err := config.Integrations(context.Background(), pool)
		if err != nil {
			rt.Fatalf("VERIF-VIOLATION property=C13 loading the stored integrations failed: %v", err)
		}
		if len(loaded) != k {
			rt.Fatalf("VERIF-VIOLATION property=C13 %d integrations stored, %d loaded", k, len(loaded))
		}
		for _, ig := range loaded {
			e := byName[ig.Name]
			if e == nil {
				rt.Fatalf("VERIF-VIOLATION property=C13 loaded an integration named %q that was not stored", ig.Name)
			}
			if got, want := ig.Event.Signature(), e.Signature(); got != want {
				rt.Fatalf("VERIF-VIOLATION property=C13 stored integration %s was declared as %s and is loaded as %s (%d stored: %v)", ig.Name, want, got, k, order)
			}
			if got, want := ig.Event.SignatureHash(), e.SigHash(); !bytes.Equal(got, want) {
				rt.Fatalf("VERIF-VIOLATION property=C13 stored integration %s (%s) is loaded with signature hash %x, want %x", ig.Name, e.Signature(), got, want)
			}
			var cols []wpg.Column
			for _, s := range e.Selected() {
				cols = append(cols, wpg.Column{Name: s.Column, Type: "bytea"})
			}
			cols = append(cols, wpg.Column{Name: "log_idx", Type: "int"})
			// built the way the manager builds it (names recur from case to case within this
			// process, like an integration that is edited and saved again under its name)
			ig.Block = []dig.BlockData{{Name: "log_idx", Column: "log_idx"}}
			ig.Table = wpg.Table{Name: "t", Columns: cols}
			ig.FilterAGG = "or"
			g, err := shovel.NewDestination(ig)
			if err != nil {
				rt.Fatalf("VERIF-VIOLATION property=C13 stored integration %s (%s) cannot be built after loading: %v", ig.Name, e.Signature(), err)
			}
			if tp := func() [][]string { f := g.Filter(); return f.Topics() }(); len(tp) != 1 || len(tp[0]) != 1 || !strings.EqualFold(strings.TrimPrefix(tp[0][0], "0x"), hex.EncodeToString(e.SigHash())) {
				rt.Fatalf("VERIF-VIOLATION property=C13 stored integration %s (%s) asks the source for topic %v, its signature hash is %x", ig.Name, e.Signature(), tp, e.SigHash())
			}
			vals := gen.GenEventValues(rt, e, gen.ValueOpts{MaxDynLen: 2, MaxBytes: 20})
			topics, data := e.LogOf(vals)
			l := eth.Log{Idx: 1, Address: make([]byte, 20), Data: data}
			for _, x := range topics {
				l.Topics = append(l.Topics, eth.Bytes(x))
			}
			blk := eth.Block{Header: eth.Header{Number: 9, Hash: make([]byte, 32), LogsBloom: make([]byte, 256)}}
			tx := eth.Tx{Idx: 0}
			tx.Logs = append(tx.Logs, l)
			blk.Txs = append(blk.Txs, tx)
			cc := &capConn{}
			ctx := wctx.WithChainID(wctx.WithSrcName(context.Background(), "src"), 1)
			var ierr error
			if p := catch(func() { _, ierr = g.Insert(ctx, new(sync.Mutex), cc, []eth.Block{blk}) }); p != nil {
				rt.Fatalf("VERIF-VIOLATION property=C13 Insert panicked for stored integration %s: %v", ig.Name, p)
			}
			if want := len(e.DataRows(vals)); ierr != nil || len(cc.rows) != want {
				rt.Fatalf("VERIF-VIOLATION property=C13 stored integration %s (%s, %d indexed) emitted %d rows (err %v) for a log of its own event, want %d; stored next to it: %v", ig.Name, e.Signature(), e.NumIndexed(), len(cc.rows), ierr, want, order)
			}
		}
		ev.Case(sameShape, fmt.Sprint(order, byName[order[0]].Signature()), fmt.Sprintf("stored=%d", k), fmt.Sprintf("sameSignatureOtherLayout=%v", sameShape))
		if sameShape && ev.WantSample(3) {
			var sigs []string
			for _, n := range order {
				sigs = append(sigs, fmt.Sprintf("%s indexed=%d", byName[n].Signature(), byName[n].NumIndexed()))
			}
			ev.Sample(3, sigs)
		}
	})
}

// TestC13_Pipeline: the "if" direction through the whole pipeline (configuration file ->
// validation -> request plan -> task): every log of the declared event produces its rows,
// also when nothing in the declaration but the event itself says that logs are needed — the
// selected inputs are all components of struct inputs and the block list names no log or
// receipt field.
func TestC13_Pipeline(t *testing.T) {
	ev := evid.For("C13", "Pipeline")
	rapid.Check(t, func(rt *rapid.T) {
		pool := gen.NewPool()
		d := gen.GenDecl(rt, gen.DeclOpts{Kinds: []string{"log"}, Pool: pool, Name: "ig", Table: "t",
			Event: gen.EventOpts{Types: gen.TypeOpts{MaxDepth: 2, MaxTuple: 3, MaxFixed: 2}, MaxInputs: 4, AllowIndexed: true, SelProb: 50}})
		d.Sources = []refmodel.SourceRef{{Name: "src1", Start: 1}}
		shape := rapid.SampledFrom([]string{"as-drawn", "nested-only", "no-log-fields", "nested-only+no-log-fields"}).Draw(rt, "shape")
		dropCols := map[string]bool{}
		if strings.HasPrefix(shape, "nested-only") {
			for _, in := range d.Event.Inputs {
				if in.Column != "" {
					dropCols[in.Column] = true
					in.Column = ""
				}
			}
			nested := false
			for _, s := range d.Event.Selected() {
				if s.Top.Column == "" {
					nested = true
				}
			}
			if !nested {
				d.Event.Inputs = append(d.Event.Inputs, &refmodel.Type{Kind: refmodel.KTuple, Name: "tt", Fields: []*refmodel.Type{
					{Kind: refmodel.KUint, Bits: 256, Name: "nx", Column: "nx"}, {Kind: refmodel.KAddress, Name: "na"}}})
				d.Columns = append(d.Columns, refmodel.Column{Name: "nx", Type: "numeric"})
			}
		}
		if strings.HasSuffix(shape, "no-log-fields") {
			var keep []refmodel.BlockField
			for _, b := range d.Block {
				if cl := c14Class(b.Name); cl == "log" || cl == "receipt" || b.Name == "abi_idx" {
					dropCols[b.Column] = true
					continue
				}
				keep = append(keep, b)
			}
			d.Block = keep
		}
		for _, s := range d.Event.Selected() {
			delete(dropCols, s.Column)
		}
		for _, b := range d.Block {
			delete(dropCols, b.Column)
		}
		var cols []refmodel.Column
		for _, c := range d.Columns {
			if !dropCols[c.Name] {
				cols = append(cols, c)
			}
		}
		d.Columns = cols
		var notify []string
		for _, n := range d.Notify {
			if !dropCols[n] {
				notify = append(notify, n)
			}
		}
		d.Notify = notify
		co := gen.ChainOpts{MaxTxs: 2, MaxLogs: 4, Pool: pool, Values: gen.ValueOpts{MaxDynLen: 2, MaxBytes: 40}, Events: []*refmodel.Event{d.Event}}
		node := sim.NewNode(sim.NewChain())
		matching := 0
		for i := rapid.IntRange(1, 3).Draw(rt, "nblocks"); i > 0; i-- {
			txs := gen.GenTxs(rt, co)
			for _, tx := range txs {
				for _, l := range tx.Logs {
					if l.Kind == "match" {
						matching++
					}
				}
			}
			node.Chain.Append(txs)
		}
		w, err := NewWorld(quietT{}, []*SourceCfg{{Name: "src1", ChainID: 5, Batch: rapid.IntRange(1, 3).Draw(rt, "batch"), Conc: 1, Node: node}}, []*refmodel.Decl{d})
		if w != nil {
			defer w.Close()
		}
		desc := func() string {
			m := &machine{decls: []*refmodel.Decl{d}, w: w}
			return shape + " " + m.describeConfig()
		}
		if err != nil {
			rt.Fatalf("VERIF-VIOLATION property=C13 configuration in the supported domain refused: %v\n %s", err, desc())
		}
		p := w.Pairs[0]
		head := node.Chain.Head().Num
		var last StepResult
		for i := 0; i < 6; i++ {
			if last = w.Step(p); last.Panic != nil {
				rt.Fatalf("VERIF-VIOLATION property=C13 Converge panicked: %v\n %s", last.Panic, desc())
			}
		}
		if c := w.Cursor(p); !c.OK || c.Num != head {
			rt.Fatalf("VERIF-VIOLATION property=C13 indexing does not reach the head (%s of %d): %s %s\n %s", curStr(c), head, last.Outcome(), errString(last.Err), desc())
		}
		if v := w.CheckPair(p); v != "" {
			rt.Fatalf("VERIF-VIOLATION property=C13 logs of the declared event and rows differ: %s\n %s", v, desc())
		}
		ev.Case(matching > 0 && shape != "as-drawn", desc(), "shape="+shape, fmt.Sprintf("matchingLogs>0=%v", matching > 0))
		if matching > 0 && shape == "nested-only+no-log-fields" && ev.WantSample(3) {
			ev.Sample(3, desc())
		}
	})
}
