package props

// C07 — source responses are validated: malformed or inconsistent data is rejected.

import (
	"bytes"
	"context"
	"encoding/hex"
	"encoding/json"
	"fmt"
	"math/big"
	"sort"
	"strconv"
	"strings"
	"sync"
	"testing"

	"github.com/indexsupply/shovel/eth"
	"github.com/indexsupply/shovel/jrpc2"
	"github.com/indexsupply/shovel/shovel/glf"
	"pgregory.net/rapid"

	"verifharness/evid"
	"verifharness/sim"
)

var c07Plans = map[string][]string{
	"h":     {"block_time"},
	"b":     {"tx_input"},
	"l":     {"log_idx"},
	"l,h":   {"log_idx", "block_time"},
	"l,b":   {"log_idx", "tx_input"},
	"r":     {"tx_status"},
	"r,h":   {"tx_status", "block_time"},
	"r,b":   {"tx_status", "tx_input"},
	"t":     {"trace_action_from"},
	"t,b":   {"trace_action_from", "tx_input"},
	"r,t,b": {"tx_status", "trace_action_from", "tx_input"},
}

var c07PlanNames = func() []string {
	var ns []string
	for n := range c07Plans {
		ns = append(ns, n)
	}
	sort.Strings(ns)
	return ns
}()

// c07Chain: a fixed chain of 10 blocks, every block with transactions, logs and traces.
var c07ChainOnce sync.Once
var c07ChainV *sim.Chain

func c07Chain() *sim.Chain {
	c07ChainOnce.Do(func() {
		c := sim.NewChain()
		for i := 1; i <= 10; i++ {
			txs := xferTxs(i)
			for ti := range txs {
				txs[ti].Traces = append(txs[ti].Traces, sim.Trace{From: addrN(byte(i)), To: addrN(byte(i + 1)), Value: big.NewInt(int64(i)), CallType: "call"},
					sim.Trace{From: addrN(byte(i + 2)), To: addrN(byte(i + 3)), Value: big.NewInt(int64(i + 10)), CallType: "staticcall"})
				txs[ti].Type = 2
				txs[ti].MaxFee, txs[ti].MaxPrio = big.NewInt(int64(100+i)), big.NewInt(int64(3+i))
				// receipt fields differ between blocks and transactions, so that a receipt
				// attached to the wrong block or transaction shows
				txs[ti].GasUsed = uint64(21000 + 100*i + ti)
				txs[ti].Status = byte((i + ti) % 2)
			}
			c.Append(txs)
		}
		c07ChainV = c
	})
	return c07ChainV
}

// ---- corruption operators (on the decoded JSON of one HTTP response) -----------

type corruption struct {
	name string
	// apply rewrites resp; returns false when the operator does not apply to this response shape
	apply func(resp any, pos, arg int) (any, bool)
}

func asArr(v any) ([]any, bool)          { a, ok := v.([]any); return a, ok }
func asObj(v any) (map[string]any, bool) { m, ok := v.(map[string]any); return m, ok }

func cloneJSON(v any) any {
	b, _ := json.Marshal(v)
	var out any
	json.Unmarshal(b, &out)
	return out
}

func hexAdd(s any, d int) any {
	str, ok := s.(string)
	if !ok {
		if f, ok := s.(float64); ok {
			return f + float64(d)
		}
		return s
	}
	n, err := strconv.ParseUint(strings.TrimPrefix(str, "0x"), 16, 64)
	if err != nil {
		return s
	}
	return "0x" + strconv.FormatUint(uint64(int64(n)+int64(d)), 16)
}

// innerList finds the list of items inside a response element: result array
// (receipts, logs, traces) — returns the element object and the list.
func innerList(el any) (map[string]any, []any, bool) {
	m, ok := asObj(el)
	if !ok {
		return nil, nil, false
	}
	l, ok := asArr(m["result"])
	return m, l, ok
}

// isHex: "0x" followed by an even number of hex digits.
func isHexStr(s string) bool {
	if !strings.HasPrefix(s, "0x") || len(s)%2 != 0 {
		return false
	}
	for _, c := range s[2:] {
		if !(c >= '0' && c <= '9' || c >= 'a' && c <= 'f' || c >= 'A' && c <= 'F') {
			return false
		}
	}
	return true
}

// noteHex: the members the client decodes into byte strings in every plan (a block's own
// hash / parentHash; blockHash of a log, receipt or trace; address and data of a log) must
// be hex in the response as finally served.
func (ss *servedSet) noteHex(x map[string]any, keys ...string) {
	for _, k := range keys {
		if sv, ok := x[k].(string); ok && !isHexStr(sv) {
			ss.badHex = true
		}
	}
}

var c07Ops = []corruption{
	{"drop-element", func(resp any, pos, arg int) (any, bool) {
		a, ok := asArr(resp)
		if !ok || len(a) == 0 {
			return resp, false
		}
		i := pos % len(a)
		return append(append([]any{}, a[:i]...), a[i+1:]...), true
	}},
	{"duplicate-element", func(resp any, pos, arg int) (any, bool) {
		a, ok := asArr(resp)
		if !ok || len(a) == 0 {
			return resp, false
		}
		i := pos % len(a)
		out := append([]any{}, a[:i+1]...)
		out = append(out, cloneJSON(a[i]))
		return append(out, a[i+1:]...), true
	}},
	{"replace-with-sibling", func(resp any, pos, arg int) (any, bool) {
		// one batch element answers with a copy of another element's result (under its own id):
		// the count is right, one request is answered twice and one not at all
		a, ok := asArr(resp)
		if !ok || len(a) < 2 {
			return resp, false
		}
		i, j := pos%len(a), (pos+1+arg%(len(a)-1))%len(a)
		mi, ok1 := asObj(a[i])
		mj, ok2 := asObj(a[j])
		if !ok1 || !ok2 {
			return resp, false
		}
		c := cloneJSON(mj).(map[string]any)
		c["id"] = mi["id"]
		out := append([]any{}, a...)
		out[i] = c
		return out, true
	}},
	{"swap-elements", func(resp any, pos, arg int) (any, bool) {
		a, ok := asArr(resp)
		if !ok || len(a) < 2 {
			return resp, false
		}
		i, j := pos%len(a), (pos+1+arg%(len(a)-1))%len(a)
		out := append([]any{}, a...)
		out[i], out[j] = out[j], out[i]
		return out, true
	}},
	{"null-result", func(resp any, pos, arg int) (any, bool) {
		if a, ok := asArr(resp); ok && len(a) > 0 {
			m, ok := asObj(a[pos%len(a)])
			if !ok {
				return resp, false
			}
			m["result"] = nil
			return a, true
		}
		if m, ok := asObj(resp); ok {
			m["result"] = nil
			return m, true
		}
		return resp, false
	}},
	{"add-error-member", func(resp any, pos, arg int) (any, bool) {
		e := map[string]any{"code": -32000 - arg%5, "message": "injected"}
		if a, ok := asArr(resp); ok && len(a) > 0 {
			m, ok := asObj(a[pos%len(a)])
			if !ok {
				return resp, false
			}
			m["error"] = e
			if arg%2 == 0 {
				delete(m, "result")
			}
			return a, true
		}
		if m, ok := asObj(resp); ok {
			m["error"] = e
			return m, true
		}
		return resp, false
	}},
	{"renumber-block", func(resp any, pos, arg int) (any, bool) {
		a, ok := asArr(resp)
		if !ok || len(a) == 0 {
			return resp, false
		}
		m, _ := asObj(a[pos%len(a)])
		r, ok := asObj(m["result"])
		if !ok || r["number"] == nil {
			return resp, false
		}
		r["number"] = hexAdd(r["number"], []int{1, -1, 7, 100}[arg%4])
		return a, true
	}},
	{"break-parent-hash", func(resp any, pos, arg int) (any, bool) {
		a, ok := asArr(resp)
		if !ok || len(a) == 0 {
			return resp, false
		}
		m, _ := asObj(a[pos%len(a)])
		r, ok := asObj(m["result"])
		if !ok || r["parentHash"] == nil {
			return resp, false
		}
		r["parentHash"] = "0x" + strings.Repeat("ee", 32)
		return a, true
	}},
	{"change-block-hash", func(resp any, pos, arg int) (any, bool) {
		a, ok := asArr(resp)
		if !ok || len(a) == 0 {
			return resp, false
		}
		m, _ := asObj(a[pos%len(a)])
		r, ok := asObj(m["result"])
		if !ok || r["hash"] == nil {
			return resp, false
		}
		r["hash"] = "0x" + strings.Repeat("dd", 32)
		return a, true
	}},
	{"item-drop", func(resp any, pos, arg int) (any, bool) { // a log / receipt / trace inside a result list
		el, list, ok := findList(resp, pos)
		if !ok || len(list) == 0 {
			return resp, false
		}
		i := arg % len(list)
		el["result"] = append(append([]any{}, list[:i]...), list[i+1:]...)
		return resp, true
	}},
	{"item-duplicate", func(resp any, pos, arg int) (any, bool) {
		el, list, ok := findList(resp, pos)
		if !ok || len(list) == 0 {
			return resp, false
		}
		i := arg % len(list)
		if (arg/len(list))%2 == 1 {
			// the copy does not follow the original: it comes last
			el["result"] = append(append([]any{}, list...), cloneJSON(list[i]))
			return resp, true
		}
		out := append([]any{}, list[:i+1]...)
		out = append(out, cloneJSON(list[i]))
		el["result"] = append(out, list[i+1:]...)
		return resp, true
	}},
	{"tx-reorder", func(resp any, pos, arg int) (any, bool) {
		// the transactions of a block body are listed out of index order (each one still names its own index)
		a, ok := asArr(resp)
		if !ok || len(a) == 0 {
			return resp, false
		}
		m, _ := asObj(a[pos%len(a)])
		r, ok := asObj(m["result"])
		if !ok {
			return resp, false
		}
		txs, ok := asArr(r["transactions"])
		if !ok || len(txs) < 2 {
			return resp, false
		}
		if _, full := asObj(txs[0]); !full {
			return resp, false
		}
		i := arg % len(txs)
		j := (i + 1) % len(txs)
		out := append([]any{}, txs...)
		out[i], out[j] = out[j], out[i]
		r["transactions"] = out
		return resp, true
	}},
	{"item-reorder", func(resp any, pos, arg int) (any, bool) {
		el, list, ok := findList(resp, pos)
		if !ok || len(list) < 2 {
			return resp, false
		}
		i := arg % len(list)
		j := (i + 1) % len(list)
		out := append([]any{}, list...)
		out[i], out[j] = out[j], out[i]
		el["result"] = out
		return resp, true
	}},
	{"item-renumber-block", func(resp any, pos, arg int) (any, bool) { // move a log/receipt/trace to another block number
		_, list, ok := findList(resp, pos)
		if !ok || len(list) == 0 {
			return resp, false
		}
		it, ok := asObj(list[arg%len(list)])
		if !ok || it["blockNumber"] == nil {
			return resp, false
		}
		d := []int{1, -1, 2, -2, 50, -50}[(arg/7)%6]
		it["blockNumber"] = hexAdd(it["blockNumber"], d)
		// a receipt carries its logs: keep the element self-consistent
		if ls, ok := asArr(it["logs"]); ok {
			for _, l := range ls {
				if lm, ok := asObj(l); ok {
					lm["blockNumber"] = hexAdd(lm["blockNumber"], d)
				}
			}
		}
		return resp, true
	}},
	{"item-change-block-hash", func(resp any, pos, arg int) (any, bool) {
		// every log / receipt / trace of one block names another block hash (answered from
		// another fork), or none (null / missing / shortened: a proxy that strips the field)
		_, list, ok := findList(resp, pos)
		if !ok || len(list) == 0 {
			return resp, false
		}
		first, ok := asObj(list[arg%len(list)])
		if !ok || first["blockNumber"] == nil || first["blockHash"] == nil {
			return resp, false
		}
		bn := first["blockNumber"]
		set := func(m map[string]any) {
			switch (arg / 7) % 4 {
			case 0:
				m["blockHash"] = "0x" + strings.Repeat("ee", 32)
			case 1:
				m["blockHash"] = nil
			case 2:
				delete(m, "blockHash")
			default:
				m["blockHash"] = "0x" + strings.Repeat("ee", 16)
			}
		}
		for _, x := range list {
			it, ok := asObj(x)
			if !ok || it["blockNumber"] != bn {
				continue
			}
			set(it)
			if ls, ok := asArr(it["logs"]); ok {
				for _, l := range ls {
					if lm, ok := asObj(l); ok {
						set(lm)
					}
				}
			}
		}
		return resp, true
	}},
	{"item-change-block-hash-one-tx", func(resp any, pos, arg int) (any, bool) {
		// the logs of ONE transaction of a block name another block hash than the logs of the
		// block's other transactions (a node answering in the middle of a reorg)
		_, list, ok := findList(resp, pos)
		if !ok || len(list) == 0 {
			return resp, false
		}
		first, ok := asObj(list[arg%len(list)])
		if !ok || first["blockNumber"] == nil || first["blockHash"] == nil || first["transactionIndex"] == nil || first["topics"] == nil {
			return resp, false
		}
		bn, ti := first["blockNumber"], first["transactionIndex"]
		others := false
		for _, x := range list {
			if it, ok := asObj(x); ok && it["blockNumber"] == bn && it["transactionIndex"] != ti {
				others = true
			}
		}
		if !others {
			return resp, false
		}
		for _, x := range list {
			if it, ok := asObj(x); ok && it["blockNumber"] == bn && it["transactionIndex"] == ti {
				it["blockHash"] = "0x" + strings.Repeat("ee", 32)
			}
		}
		return resp, true
	}},
	{"bad-hex", func(resp any, pos, arg int) (any, bool) {
		// one hex string of one element (a hash, an address, log data ...) gets a non-hex
		// character or an odd number of digits: still JSON, no longer the value
		var els []any
		if a, ok := asArr(resp); ok {
			els = a
		} else {
			els = []any{resp}
		}
		if len(els) == 0 {
			return resp, false
		}
		var strs []func(string)
		var vals []string
		// only members the client is known to decode into byte strings in every plan:
		// a block's own hash / parentHash; blockHash of a log, receipt or trace; address and data of a log
		take := func(x map[string]any, keys ...string) {
			for _, k := range keys {
				k := k
				// (only values that are still well-formed: a second corruption of the same string could
				// make it well-formed again at another length, which is no longer "not hex")
				if sv, ok := x[k].(string); ok && strings.HasPrefix(sv, "0x") && len(sv) >= 42 && isHexStr(sv) {
					strs = append(strs, func(nv string) { x[k] = nv })
					vals = append(vals, sv)
				}
			}
		}
		m, ok := asObj(els[pos%len(els)])
		if !ok {
			return resp, false
		}
		switch r := m["result"].(type) {
		case map[string]any:
			take(r, "hash", "parentHash")
		case []any:
			for _, it := range r {
				if im, ok := asObj(it); ok {
					take(im, "blockHash")
					if _, isLog := im["topics"]; isLog {
						take(im, "address", "data")
					}
				}
			}
		}
		if len(strs) == 0 {
			return resp, false
		}
		i := arg % len(strs)
		v := vals[i]
		switch (arg / 7) % 3 {
		case 0:
			v = v[:10] + "g" + v[11:]
		case 1:
			v = v[:len(v)-1] // odd number of digits
		default:
			v = v[:2] + "0x" + v[4:]
		}
		strs[i](v)
		return resp, true
	}},
	{"item-change-tx-index", func(resp any, pos, arg int) (any, bool) {
		_, list, ok := findList(resp, pos)
		if !ok || len(list) == 0 {
			return resp, false
		}
		it, ok := asObj(list[arg%len(list)])
		if !ok {
			return resp, false
		}
		for _, k := range []string{"transactionIndex", "transactionPosition"} {
			if it[k] != nil {
				it[k] = hexAdd(it[k], 1+arg%3)
				if ls, ok := asArr(it["logs"]); ok {
					for _, l := range ls {
						if lm, ok := asObj(l); ok {
							lm["transactionIndex"] = hexAdd(lm["transactionIndex"], 1+arg%3)
						}
					}
				}
				return resp, true
			}
		}
		return resp, false
	}},
}

// findList locates the pos-th element that carries a result list.
func findList(resp any, pos int) (map[string]any, []any, bool) {
	var els []any
	if a, ok := asArr(resp); ok {
		els = a
	} else {
		els = []any{resp}
	}
	var cands []map[string]any
	for _, e := range els {
		if m, l, ok := innerList(e); ok && l != nil {
			cands = append(cands, m)
		}
	}
	if len(cands) == 0 {
		return nil, nil, false
	}
	m := cands[pos%len(cands)]
	l, _ := asArr(m["result"])
	return m, l, true
}

// ---- what was served ----------------------------------------------------------------

type servedLog struct {
	block, tx, idx uint64
	addr, data     string
	topics         []string
	blockHash      string
}

type servedSet struct {
	kinds      []string
	errMember  bool
	nullResult bool
	shortBatch bool
	blocks     map[uint64]map[string]any // from headers/blocks responses, by number (first wins)
	blockOrder []uint64
	dupBlocks  bool
	logs       []servedLog
	receipts   []map[string]any
	traces     []map[string]any
	dupLogIdx  map[[2]uint64]bool // (block, log index) served more than once with different content
	badHex     bool               // a hex string of a response was corrupted
	lagging    bool                // a request was answered by a replica that lacks blocks of the range
	itemHashes map[uint64][]string // block number -> blockHash of every served log / receipt / trace ("" = none)
	wrongBlock bool // a receipts/traces response answers for another block than asked, or mixes blocks
	transport  bool
	fromGetLogs bool // at least one eth_getLogs response was served (logs attached by logs(), which compares every group's hash)
}

func pu(v any) uint64 {
	switch x := v.(type) {
	case string:
		n, _ := strconv.ParseUint(strings.TrimPrefix(x, "0x"), 16, 64)
		return n
	case float64:
		return uint64(x)
	}
	return 0
}

func collectServed(ss *servedSet, ri sim.ReqInfo, resp any, start, limit uint64) {
	ss.kinds = append(ss.kinds, ri.Kind)
	var els []any
	if a, ok := asArr(resp); ok {
		els = a
		if len(a) < ri.N {
			ss.shortBatch = true
		}
	} else {
		els = []any{resp}
	}
	_, isBatch := asArr(resp)
	for i, e := range els {
		m, ok := asObj(e)
		if !ok {
			continue
		}
		if isBatch && i >= ri.N {
			// surplus elements after the requested ones are not data the caller asked
			// for: the client may ignore them or refuse the response, whatever they hold
			continue
		}
		if m["error"] != nil {
			ss.errMember = true
		}
		res, has := m["result"]
		if !has || res == nil {
			if m["error"] == nil {
				ss.nullResult = true
			}
			continue
		}
		switch ri.Kind {
		case "headers", "blocks":
			r, _ := asObj(res)
			ss.noteHex(r, "hash", "parentHash")
			n := pu(r["number"])
			if _, dup := ss.blocks[n]; dup {
				ss.dupBlocks = true
			} else {
				ss.blocks[n] = r
			}
			ss.blockOrder = append(ss.blockOrder, n)
		case "logs":
			if i == 0 { // the header probe for toBlock
				continue
			}
			list, _ := asArr(res)
			ss.fromGetLogs = true
			for _, x := range list {
				ss.logs = append(ss.logs, parseLog(x))
				ss.noteHash(x)
				if lm, ok := asObj(x); ok {
					ss.noteHex(lm, "blockHash", "address", "data")
				}
			}
		case "receipts":
			list, _ := asArr(res)
			for j, x := range list {
				r, _ := asObj(x)
				ss.receipts = append(ss.receipts, r)
				ss.noteHash(x)
				ss.noteHex(r, "blockHash")
				// (a reordered batch is still attached by the block each receipt names: allowed)
				bn := pu(r["blockNumber"])
				if bn < start || bn >= start+limit || (j > 0 && bn != pu(list[0].(map[string]any)["blockNumber"])) {
					ss.wrongBlock = true
				}
				ll, _ := asArr(r["logs"])
				for _, y := range ll {
					ss.logs = append(ss.logs, parseLog(y))
				}
			}
		case "traces":
			list, _ := asArr(res)
			for j, x := range list {
				r, _ := asObj(x)
				ss.traces = append(ss.traces, r)
				ss.noteHash(x)
				ss.noteHex(r, "blockHash")
				bn := pu(r["blockNumber"])
				if bn < start || bn >= start+limit || (j > 0 && bn != pu(list[0].(map[string]any)["blockNumber"])) {
					ss.wrongBlock = true
				}
			}
			if len(list) == 0 {
				ss.nullResult = true // "no rpc error but empty result" is the client's documented refusal
			}
		}
	}
}

func (ss *servedSet) noteHash(x any) {
	m, ok := asObj(x)
	if !ok {
		return
	}
	if ss.itemHashes == nil {
		ss.itemHashes = map[uint64][]string{}
	}
	h, _ := m["blockHash"].(string)
	bn := pu(m["blockNumber"])
	ss.itemHashes[bn] = append(ss.itemHashes[bn], h)
}

func parseLog(x any) servedLog {
	m, _ := asObj(x)
	l := servedLog{block: pu(m["blockNumber"]), tx: pu(m["transactionIndex"]), idx: pu(m["logIndex"])}
	l.addr, _ = m["address"].(string)
	l.data, _ = m["data"].(string)
	l.blockHash, _ = m["blockHash"].(string)
	ts, _ := asArr(m["topics"])
	for _, t := range ts {
		s, _ := t.(string)
		l.topics = append(l.topics, s)
	}
	return l
}

func hx(b []byte) string { return "0x" + hex.EncodeToString(b) }

// c07Judge applies the C07 oracle. plan: which methods the filter uses.
func c07Judge(ss *servedSet, f *glf.Filter, start, limit uint64, blocks []eth.Block, err error) string {
	inRange := func(n uint64) bool { return n >= start && n < start+limit }
	// ---- conditions under which an error is mandatory
	must := ""
	switch {
	case ss.transport:
		must = "transport failure / undecodable body"
	case ss.errMember:
		must = "a response element carries an error member"
	case ss.nullResult:
		must = "a result is null / missing"
	case ss.badHex:
		must = "a hex value of the response is not hex / has an odd number of digits"
	case ss.lagging:
		must = "a request was answered by a replica that does not have the whole range yet (missing results)"
	case ss.shortBatch:
		must = "a batch response has fewer elements than requests"
	case ss.wrongBlock:
		must = "the receipts/traces of one response name a block outside the range or different blocks"
	}
	if must == "" && (f.UseHeaders || f.UseBlocks) {
		// numbers as served, in order, must be start..start+limit-1 and hash-linked
		if uint64(len(ss.blockOrder)) < limit {
			must = fmt.Sprintf("%d block results served for %d requested", len(ss.blockOrder), limit)
		}
		// (surplus elements after the requested ones are not data the caller asked for)
		if uint64(len(ss.blockOrder)) > limit {
			ss.blockOrder = ss.blockOrder[:limit]
		}
		for i, n := range ss.blockOrder {
			if must == "" && n != start+uint64(i) {
				must = fmt.Sprintf("block result %d is numbered %d, requested %d", i, n, start+uint64(i))
			}
		}
		for i := 1; must == "" && i < len(ss.blockOrder); i++ {
			prev, cur := ss.blocks[ss.blockOrder[i-1]], ss.blocks[ss.blockOrder[i]]
			if prev != nil && cur != nil && cur["parentHash"] != prev["hash"] {
				must = fmt.Sprintf("block %d does not link to the hash served for block %d", ss.blockOrder[i], ss.blockOrder[i-1])
			}
		}
	}
	if must == "" && (f.UseHeaders || f.UseBlocks) {
		// every log / receipt / trace served for a block names (by a full hash) another
		// block than the one served under that number: attaching them would put data on
		// a block it does not name
		for n, hs := range ss.itemHashes {
			sb := ss.blocks[n]
			if sb == nil || !inRange(n) || len(fmt.Sprint(sb["hash"])) != 66 {
				continue // (a block served with something that is not a 32-byte hash has no identity to compare with)
			}
			all := len(hs) > 0
			for _, h := range hs {
				if len(h) != 66 || strings.EqualFold(h, fmt.Sprint(sb["hash"])) {
					all = false
				}
			}
			if all {
				must = fmt.Sprintf("everything served for block %d names block hash %s, the block was served with hash %v", n, hs[0], sb["hash"])
			}
		}
	}
	if must == "" && f.UseBlocks && f.UseReceipts {
		// a block served with transactions for which no receipt at all was served: its
		// receipts are a missing result, whatever else the batch held
		have := map[uint64]bool{}
		for _, r := range ss.receipts {
			have[pu(r["blockNumber"])] = true
		}
		for n, sb := range ss.blocks {
			if txs, _ := asArr(sb["transactions"]); inRange(n) && len(txs) > 0 && !have[n] {
				must = fmt.Sprintf("block %d was served with %d transactions and no receipt was served for it", n, len(txs))
			}
		}
	}
	if must == "" {
		// logs served for one block under two different (complete) block hashes: whichever block
		// is returned, some of them are attached to a block they do not name
		// (compared per transaction group by its first log, as served)
		type bt struct{ b, t uint64 }
		seenGroup := map[bt]bool{}
		hashOf := map[uint64]string{}
		for _, l := range ss.logs {
			if !inRange(l.block) || !ss.fromGetLogs || seenGroup[bt{l.block, l.tx}] {
				continue
			}
			seenGroup[bt{l.block, l.tx}] = true
			if len(l.blockHash) != 66 {
				continue
			}
			if h, ok := hashOf[l.block]; ok && !strings.EqualFold(h, l.blockHash) {
				must = fmt.Sprintf("logs of two transactions of block %d were served under different block hashes (%s, %s)", l.block, h, l.blockHash)
			}
			hashOf[l.block] = l.blockHash
		}
	}
	if must == "" {
		for _, l := range ss.logs {
			if !inRange(l.block) {
				must = fmt.Sprintf("a served log names block %d outside %d..%d", l.block, start, start+limit-1)
			}
		}
	}
	if err != nil {
		return ""
	}
	if must != "" {
		return "no error although " + must
	}
	// ---- accepted: the blocks must be exactly what was served
	if uint64(len(blocks)) != limit {
		return fmt.Sprintf("%d blocks returned for limit %d", len(blocks), limit)
	}
	for i := range blocks {
		if blocks[i].Num() != start+uint64(i) {
			return fmt.Sprintf("block %d of the result is numbered %d", i, blocks[i].Num())
		}
		if f.UseHeaders || f.UseBlocks {
			sb := ss.blocks[blocks[i].Num()]
			if sb == nil {
				return fmt.Sprintf("block %d returned but never served", blocks[i].Num())
			}
			// (a header served with something that is not a 32-byte hash supplies no hash: the logs may)
			if len(fmt.Sprint(sb["hash"])) == 66 && hx(blocks[i].Hash()) != sb["hash"] {
				return fmt.Sprintf("block %d returned with hash %x, served %v", blocks[i].Num(), blocks[i].Hash(), sb["hash"])
			}
			if len(fmt.Sprint(sb["parentHash"])) == 66 && hx(blocks[i].Header.Parent) != sb["parentHash"] {
				return fmt.Sprintf("block %d returned with parent %x, served %v", blocks[i].Num(), blocks[i].Header.Parent, sb["parentHash"])
			}
			if i > 0 && !bytes.Equal(blocks[i].Header.Parent, blocks[i-1].Hash()) {
				return fmt.Sprintf("returned blocks %d and %d are not hash-linked", blocks[i-1].Num(), blocks[i].Num())
			}
		}
	}
	// every transaction index at most once per returned block, every log index at most once per block
	// (unless the source itself served two different logs under one index)
	ss.dupLogIdx = map[[2]uint64]bool{}
	{
		first := map[[2]uint64]servedLog{}
		for _, l := range ss.logs {
			k := [2]uint64{l.block, l.idx}
			if o, ok := first[k]; ok {
				if o.tx != l.tx || o.addr != l.addr || o.data != l.data || strings.Join(o.topics, ",") != strings.Join(l.topics, ",") {
					ss.dupLogIdx[k] = true
				}
			} else {
				first[k] = l
			}
		}
	}
	for i := range blocks {
		seenTx, seenLog := map[uint64]bool{}, map[uint64]bool{}
		for ti := range blocks[i].Txs {
			tx := &blocks[i].Txs[ti]
			if seenTx[uint64(tx.Idx)] {
				return fmt.Sprintf("block %d is returned with two transactions of index %d", blocks[i].Num(), tx.Idx)
			}
			seenTx[uint64(tx.Idx)] = true
			for _, l := range tx.Logs {
				if seenLog[uint64(l.Idx)] && !ss.dupLogIdx[[2]uint64{blocks[i].Num(), uint64(l.Idx)}] {
					return fmt.Sprintf("block %d is returned with log %d twice", blocks[i].Num(), l.Idx)
				}
				seenLog[uint64(l.Idx)] = true
			}
		}
	}
	// logs: attachment relation
	if f.UseLogs || f.UseReceipts {
		type key struct{ b, li uint64 }
		servedBy := map[key][]servedLog{}
		for _, l := range ss.logs {
			servedBy[key{l.block, l.idx}] = append(servedBy[key{l.block, l.idx}], l)
		}
		seen := map[key]bool{}
		for i := range blocks {
			for ti := range blocks[i].Txs {
				tx := &blocks[i].Txs[ti]
				for _, l := range tx.Logs {
					k := key{blocks[i].Num(), uint64(l.Idx)}
					cands := servedBy[k]
					ok := false
					for _, c := range cands {
						if c.tx == uint64(tx.Idx) && strings.EqualFold(c.addr, hx(l.Address)) && strings.EqualFold(c.data, hx(l.Data)) && len(c.topics) == len(l.Topics) {
							same := true
							for x := range c.topics {
								if !strings.EqualFold(c.topics[x], hx(l.Topics[x])) {
									same = false
								}
							}
							if same {
								ok = true
							}
						}
					}
					if !ok {
						return fmt.Sprintf("log %d returned under block %d tx %d was not served for that block and transaction (served candidates: %+v)", l.Idx, blocks[i].Num(), tx.Idx, cands)
					}
					seen[k] = true
				}
			}
		}
		// two receipts claiming the same (block, tx) identity: exempt from the completeness clause
		type bt struct{ b, t uint64 }
		rcount := map[bt]int{}
		for _, r := range ss.receipts {
			rcount[bt{pu(r["blockNumber"]), pu(r["transactionIndex"])}]++
		}
		for k, cands := range servedBy {
			if len(cands) == 1 && rcount[bt{k.b, cands[0].tx}] > 1 {
				continue
			}
			if len(cands) == 1 && !seen[k] {
				return fmt.Sprintf("served log %d of block %d (tx %d) is missing from the result", k.li, k.b, cands[0].tx)
			}
		}
	}
	if f.UseReceipts {
		rcount2 := map[[2]uint64]int{}
		for _, r := range ss.receipts {
			rcount2[[2]uint64{pu(r["blockNumber"]), pu(r["transactionIndex"])}]++
		}
		for _, r := range ss.receipts {
			b, t := pu(r["blockNumber"]), pu(r["transactionIndex"])
			if !inRange(b) {
				continue
			}
			var tx *eth.Tx
			for ti := range blocks[b-start].Txs {
				if uint64(blocks[b-start].Txs[ti].Idx) == t {
					tx = &blocks[b-start].Txs[ti]
				}
			}
			if tx == nil {
				return fmt.Sprintf("served receipt of block %d tx %d is missing from the result", b, t)
			}
			// (traces carry a transaction hash too and are attached later: compare only where the receipt is the last writer)
			if th, _ := r["transactionHash"].(string); !f.UseTraces && !strings.EqualFold(th, hx(tx.PrecompHash)) && rcount2[[2]uint64{b, t}] == 1 {
				return fmt.Sprintf("receipt of block %d tx %d attached with transaction hash %x, served %v", b, t, tx.PrecompHash, r["transactionHash"])
			}
			if bh, _ := r["blockHash"].(string); len(bh) == 66 && !f.UseHeaders && !f.UseBlocks && !strings.EqualFold(bh, hx(blocks[b-start].Hash())) && rcount2[[2]uint64{b, t}] == 1 {
				return fmt.Sprintf("block %d is returned with hash %x, its receipts were served with block hash %v", b, blocks[b-start].Hash(), r["blockHash"])
			}
			if rcount2[[2]uint64{b, t}] > 1 {
				continue // two receipts claim this (block, transaction): either may be the one attached
			}
			if uint64(tx.Status) != pu(r["status"]) || uint64(tx.GasUsed) != pu(r["gasUsed"]) {
				return fmt.Sprintf("receipt of block %d tx %d attached with status/gasUsed %d/%d, served %v/%v", b, t, tx.Status, tx.GasUsed, r["status"], r["gasUsed"])
			}
		}
	}
	if f.UseTraces {
		type key struct{ b, t uint64 }
		want := map[key][]map[string]any{}
		for _, r := range ss.traces {
			k := key{pu(r["blockNumber"]), pu(r["transactionPosition"])}
			want[k] = append(want[k], r)
		}
		for i := range blocks {
			for ti := range blocks[i].Txs {
				tx := &blocks[i].Txs[ti]
				k := key{blocks[i].Num(), uint64(tx.Idx)}
				w := want[k]
				if len(tx.TraceActions) != len(w) {
					return fmt.Sprintf("block %d tx %d has %d trace actions, %d were served for it", k.b, k.t, len(tx.TraceActions), len(w))
				}
				for x, ta := range tx.TraceActions {
					act, _ := asObj(w[x]["action"])
					if !strings.EqualFold(hx(ta.From), fmt.Sprint(act["from"])) || ta.CallType != act["callType"] {
						return fmt.Sprintf("trace %d of block %d tx %d differs from what was served", x, k.b, k.t)
					}
				}
				delete(want, k)
			}
		}
		for k := range want {
			if inRange(k.b) {
				return fmt.Sprintf("served traces of block %d tx %d are missing from the result", k.b, k.t)
			}
		}
	}
	return ""
}

type c07Mut struct {
	req int // which HTTP request of the Get (0-based)
	op  int // index into c07Ops, or -1..-4 for transport faults, -5 for a lagging replica
	pos int
	arg int
}

// c07ThroughCache: the client keeps its segment cache (default: the 'nocache' switch).
var c07ThroughCache bool

// c07Run performs one Client.Get against the scripted node.
func c07Run(plan string, start, limit uint64, muts []c07Mut) (viol string, applied []string, parsedOK bool, nreq int) {
	_, ns := env()
	node := sim.NewNode(c07Chain().Clone())
	ss := &servedSet{blocks: map[uint64]map[string]any{}}
	var mu sync.Mutex
	reqN := 0
	var lagged []*sim.Fault
	remade := map[*sim.Fault]bool{} // the replica's answer was rewritten by another operator afterwards
	node.OnRequest = func(n *sim.Node, ri sim.ReqInfo) *sim.Fault {
		mu.Lock()
		defer mu.Unlock()
		i := reqN
		reqN++
		f := &sim.Fault{}
		lagDesc := ""
		var mine []c07Mut
		for _, m := range muts {
			if m.req == i {
				mine = append(mine, m)
			}
		}
		for _, m := range mine {
			switch m.op {
			case -1:
				ss.transport = true
				if m.arg%3 == 2 {
					// the complete, well-formed JSON-RPC body under an error status
					applied = append(applied, "http-"+strconv.Itoa(500+m.arg%4)+"-with-json-body")
					return &sim.Fault{Status: 500 + m.arg%4, KeepBody: true}
				}
				applied = append(applied, "http-"+strconv.Itoa(500+m.arg%4))
				return &sim.Fault{Status: 500 + m.arg%4}
			case -2:
				ss.transport = true
				applied = append(applied, "invalid-json")
				return &sim.Fault{BadJSON: true}
			case -3:
				ss.transport = true
				applied = append(applied, "closed-connection")
				return &sim.Fault{CloseConn: true}
			}
		}
		f.Mutate = func(resp any) any {
			mu.Lock()
			defer mu.Unlock()
			for _, m := range mine {
				if m.op >= 0 {
					if out, ok := c07Ops[m.op].apply(resp, m.pos, m.arg); ok {
						resp = out
						remade[f] = true
						applied = append(applied, fmt.Sprintf("%s@req%d(%s)", c07Ops[m.op].name, i, ri.Kind))
					}
				}
			}
			collectServed(ss, ri, cloneJSON(resp), start, limit)
			return resp
		}
		for _, m := range mine {
			if m.op == -5 {
				// the request is answered by a replica whose head is the end of the range minus 0..2
				end, head := start+limit-1, n.Chain.Head().Num
				behind := uint64(m.arg % 3)
				if behind >= end {
					continue
				}
				f.Lag = int(head - (end - behind))
				lagDesc = fmt.Sprintf("replica-head=%d@req%d(%s)", end-behind, i, ri.Kind)
			}
		}
		if f.Lag > 0 {
			applied = append(applied, lagDesc)
			lagged = append(lagged, f)
		}
		for _, m := range mine {
			if m.op == -4 {
				f.Truncate = 1 + m.arg
				ss.transport = true // (unless the cut happens to leave valid JSON, checked below)
				applied = append(applied, fmt.Sprintf("truncate@%d", f.Truncate))
			}
		}
		return f
	}
	sw := "nocache"
	if c07ThroughCache {
		// a fresh client: the first read of a range goes to the source and comes back through the
		// segment cache (stored, then copied out for the reader)
		sw = ""
	}
	url := ns.Attach(node, sw)
	defer ns.Detach(url)
	c := jrpc2.New(url)
	filter := glf.New(c07Plans[plan], nil, nil)
	var blocks []eth.Block
	var err error
	if p := catch(func() { blocks, err = c.Get(context.Background(), url, filter, start, limit) }); p != nil {
		return fmt.Sprintf("Client.Get panicked: %v", p), applied, false, reqN
	}
	mu.Lock()
	defer mu.Unlock()
	if ss.transport && err == nil {
		// a truncation that still leaves a complete JSON document is not a transport failure
		for _, a := range applied {
			if strings.HasPrefix(a, "http-") || a == "invalid-json" || a == "closed-connection" {
				return "no error although the transport failed (" + a + ")", applied, false, reqN
			}
		}
		ss.transport = false
	}
	parsedOK = !ss.transport
	for _, f := range lagged {
		if f.LagHit && !remade[f] {
			ss.lagging = true
		}
	}
	if v := c07Judge(ss, filter, start, limit, blocks, err); v != "" {
		return v, applied, parsedOK, reqN
	}
	return "", applied, parsedOK, reqN
}

// TestC07_SingleOperator: every operator at every position of every request,
// for every plan, ranges with limit 1..3 (quick: 1..2).
func TestC07_SingleOperator(t *testing.T) {
	ev := evid.For("C07", "SingleOperator")
	si, sn := shard()
	maxLimit := uint64(scale(2, 3))
	n := 0
	for pi, plan := range c07PlanNames {
		if pi%sn != si {
			continue
		}
		for limit := uint64(1); limit <= maxLimit; limit++ {
			start := uint64(2 + pi%3)
			// clean run: must succeed and pass the oracle; also tells the number of requests
			v, _, _, nreq := c07Run(plan, start, limit, nil)
			if v != "" {
				t.Fatalf("VERIF-VIOLATION property=C07 plan=%s start=%d limit=%d uncorrupted: %s", plan, start, limit, v)
			}
			for req := 0; req < nreq; req++ {
				for op := -5; op < len(c07Ops); op++ {
					npos, nargs := int(limit)+1, 4
					if op < 0 {
						npos, nargs = 1, 3
					}
					for pos := 0; pos < npos; pos++ {
						for arg := 0; arg < nargs; arg++ {
							a := arg
							if op == -4 {
								a = []int{0, 40, 400}[arg]
							}
							if op >= 0 && strings.HasPrefix(c07Ops[op].name, "item-") {
								a = arg*7 + pos
							}
							v, applied, parsed, _ := c07Run(plan, start, limit, []c07Mut{{req: req, op: op, pos: pos, arg: a}})
							if len(applied) == 0 {
								continue
							}
							if v == "" && op >= 0 && strings.HasPrefix(c07Ops[op].name, "item-") {
								// the same through a caching client (what is stored and what a reader is handed)
								c07ThroughCache = true
								v, _, _, _ = c07Run(plan, start, limit, []c07Mut{{req: req, op: op, pos: pos, arg: a}})
								c07ThroughCache = false
								if v != "" {
									v = "(through the segment cache) " + v
								}
							}
							n++
							desc := fmt.Sprintf("plan=%s start=%d limit=%d %v", plan, start, limit, applied)
							ev.Case(parsed, desc, "op="+strings.Split(applied[0], "@")[0])
							if parsed && ev.WantSample(5) {
								ev.Sample(5, desc)
							}
							if v != "" {
								t.Fatalf("VERIF-VIOLATION property=C07 %s: %s", desc, v)
							}
						}
					}
				}
			}
		}
	}
	ev.Set("exhaustive_single_operator", true)
	t.Logf("corrupted runs in this shard: %d", n)
}

// TestC07_Combined: 1-3 operators at generated positions, any plan, any range.
func TestC07_Combined(t *testing.T) {
	ev := evid.For("C07", "Combined")
	rapid.Check(t, func(rt *rapid.T) {
		plan := rapid.SampledFrom(c07PlanNames).Draw(rt, "plan")
		limit := uint64(rapid.IntRange(1, 6).Draw(rt, "limit"))
		start := uint64(rapid.IntRange(1, 11-int(limit)).Draw(rt, "start"))
		k := rapid.IntRange(1, 3).Draw(rt, "nops")
		var muts []c07Mut
		for i := 0; i < k; i++ {
			muts = append(muts, c07Mut{req: rapid.IntRange(0, 7).Draw(rt, "req"), op: rapid.IntRange(-5, len(c07Ops)-1).Draw(rt, "op"), pos: rapid.IntRange(0, 6).Draw(rt, "pos"), arg: rapid.IntRange(0, 400).Draw(rt, "arg")})
		}
		c07ThroughCache = rapid.IntRange(0, 2).Draw(rt, "throughcache") == 0
		v, applied, parsed, _ := c07Run(plan, start, limit, muts)
		desc := fmt.Sprintf("plan=%s start=%d limit=%d cache=%v %v", plan, start, limit, c07ThroughCache, applied)
		c07ThroughCache = false
		if v != "" {
			rt.Fatalf("VERIF-VIOLATION property=C07 %s: %s", desc, v)
		}
		ev.Case(parsed && len(applied) > 0, desc, fmt.Sprintf("applied=%d", len(applied)), "plan="+plan)
		if parsed && len(applied) > 1 && ev.WantSample(3) {
			ev.Sample(3, desc)
		}
	})
}

// FuzzC07: native fuzzing; the bytes choose plan, range, operators and positions.
func FuzzC07(f *testing.F) {
	f.Add([]byte{0, 1, 2, 0, 3, 1, 1})
	f.Add([]byte{5, 2, 3, 1, 11, 0, 9, 0, 255, 2, 200})
	f.Add([]byte{9, 3, 1, 2, 8, 1, 7, 1, 0xfd, 0, 1})
	f.Fuzz(func(t *testing.T, b []byte) {
		if len(b) < 3 {
			return
		}
		plan := c07PlanNames[int(b[0])%len(c07PlanNames)]
		limit := uint64(b[1])%4 + 1
		start := uint64(b[2])%uint64(11-limit) + 1
		var muts []c07Mut
		for i := 3; i+3 < len(b) && len(muts) < 3; i += 4 {
			op := int(b[i+1])%(len(c07Ops)+4) - 4
			muts = append(muts, c07Mut{req: int(b[i]) % 8, op: op, pos: int(b[i+2]) % 7, arg: int(b[i+3])})
		}
		if v, applied, _, _ := c07Run(plan, start, limit, muts); v != "" {
			t.Fatalf("VERIF-VIOLATION property=C07 plan=%s start=%d limit=%d %v: %s", plan, start, limit, applied, v)
		}
	})
}

// blocksDigest renders what a caller can observe of returned blocks, restricted
// to logs matching (addrs, topic0) when given.
func blocksDigest(blocks []eth.Block, logFilter func(l *eth.Log) bool) string {
	return blocksDigestPlan(blocks, logFilter, nil)
}

// blocksDigestPlan restricts the digest to what the caller's data plan covers
// (a shared cached block may carry more: logs, receipt fields or traces that
// other callers asked for).
func blocksDigestPlan(blocks []eth.Block, logFilter func(l *eth.Log) bool, plan *glf.Filter) string {
	var sb strings.Builder
	for i := range blocks {
		b := &blocks[i]
		fmt.Fprintf(&sb, "B%d h=%x p=%x t=%d|", b.Num(), b.Hash(), b.Header.Parent, b.Header.Time)
		txs := append([]int{}, make([]int, len(b.Txs))...)
		for j := range txs {
			txs[j] = j
		}
		sort.Slice(txs, func(x, y int) bool { return b.Txs[txs[x]].Idx < b.Txs[txs[y]].Idx })
		for _, j := range txs {
			tx := &b.Txs[j]
			if plan != nil && !plan.UseBlocks && !plan.UseReceipts {
				// transactions exist in this plan only as carriers of the caller's logs / traces
				relevant := plan.UseTraces && len(tx.TraceActions) > 0
				if plan.UseLogs {
					for k := range tx.Logs {
						if logFilter == nil || logFilter(&tx.Logs[k]) {
							relevant = true
						}
					}
				}
				if !relevant {
					continue
				}
			}
			fmt.Fprintf(&sb, " T%d h=%x", tx.Idx, tx.PrecompHash)
			if plan == nil || plan.UseBlocks {
				fmt.Fprintf(&sb, " in=%x v=%s", tx.Data, tx.Value.Dec())
			}
			if plan == nil || plan.UseBlocks || plan.UseReceipts {
				fmt.Fprintf(&sb, " to=%x", tx.To)
			}
			if plan == nil || plan.UseReceipts {
				fmt.Fprintf(&sb, " st=%d gu=%d", tx.Status, tx.GasUsed)
			}
			if plan == nil || plan.UseLogs || plan.UseReceipts {
				ls := append(eth.Logs{}, tx.Logs...)
				sort.Slice(ls, func(x, y int) bool { return ls[x].Idx < ls[y].Idx })
				for k := range ls {
					if logFilter != nil && !logFilter(&ls[k]) {
						continue
					}
					fmt.Fprintf(&sb, " L%d a=%x d=%x tp=%x", ls[k].Idx, ls[k].Address, ls[k].Data, ls[k].Topics)
				}
			}
			if plan == nil || plan.UseTraces {
				for k, ta := range tx.TraceActions {
					fmt.Fprintf(&sb, " A%d %x>%x %s %s", k, ta.From, ta.To, ta.Value.Dec(), ta.CallType)
				}
			}
		}
		sb.WriteString("\n")
	}
	return sb.String()
}

// TestC07_RetryCached: with the caching client, a rejected (corrupted) response
// must not be what a retry of the same request returns.
func TestC07_RetryCached(t *testing.T) {
	ev := evid.For("C07", "RetryCached")
	_, ns := env()
	rapid.Check(t, func(rt *rapid.T) {
		plan := rapid.SampledFrom(c07PlanNames).Draw(rt, "plan")
		limit := uint64(rapid.IntRange(1, 4).Draw(rt, "limit"))
		start := uint64(rapid.IntRange(1, 11-int(limit)).Draw(rt, "start"))
		filter := glf.New(c07Plans[plan], nil, nil)
		mut := c07Mut{req: rapid.IntRange(0, 3).Draw(rt, "req"), op: rapid.IntRange(0, len(c07Ops)-1).Draw(rt, "op"), pos: rapid.IntRange(0, 4).Draw(rt, "pos"), arg: rapid.IntRange(0, 50).Draw(rt, "arg")}
		// reference: clean uncached read
		refNode := sim.NewNode(c07Chain().Clone())
		refURL := ns.Attach(refNode, "nocache")
		defer ns.Detach(refURL)
		ref, err := jrpc2.New(refURL).Get(context.Background(), refURL, filter, start, limit)
		if err != nil {
			rt.Fatalf("VERIF-INCONCLUSIVE clean read failed: %v", err)
		}
		want := blocksDigest(ref, nil)
		node := sim.NewNode(c07Chain().Clone())
		reqN, applied := 0, ""
		node.OnRequest = func(n *sim.Node, ri sim.ReqInfo) *sim.Fault {
			i := reqN
			reqN++
			if i != mut.req {
				return nil
			}
			return &sim.Fault{Mutate: func(resp any) any {
				if out, ok := c07Ops[mut.op].apply(resp, mut.pos, mut.arg); ok {
					applied = c07Ops[mut.op].name + "(" + ri.Kind + ")"
					return out
				}
				return resp
			}}
		}
		url := ns.Attach(node, "")
		defer ns.Detach(url)
		c := jrpc2.New(url).WithMaxReads(rapid.IntRange(1, 4).Draw(rt, "maxreads"))
		_, err1 := c.Get(context.Background(), url, filter, start, limit)
		rejected := err1 != nil
		for try := 0; try < 3; try++ {
			got, err := c.Get(context.Background(), url, filter, start, limit)
			if err != nil {
				continue
			}
			if rejected && blocksDigest(got, nil) != want {
				rt.Fatalf("VERIF-VIOLATION property=C07 plan=%s start=%d limit=%d: after %s was rejected (%v), retry %d returned data that differs from a clean read\n got:  %.600s\n want: %.600s", plan, start, limit, applied, err1, try+1, blocksDigest(got, nil), want)
			}
		}
		ev.Case(rejected && applied != "", fmt.Sprintf("%s %d %d %s", plan, start, limit, applied), fmt.Sprintf("rejected=%v", rejected))
		if rejected && ev.WantSample(3) {
			ev.Sample(3, fmt.Sprintf("plan=%s start=%d limit=%d first call corrupted by %s -> %v; retries compared with a clean read", plan, start, limit, applied, err1))
		}
	})
}
