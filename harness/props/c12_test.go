package props

// C12 — filters keep exactly the rows they select; server-side pre-filtering loses none.

import (
	"context"
	"encoding/hex"
	"fmt"
	"math/big"
	"strings"
	"sync"
	"testing"

	"github.com/holiman/uint256"
	"github.com/indexsupply/shovel/dig"
	"github.com/indexsupply/shovel/eth"
	"github.com/indexsupply/shovel/shovel/config"
	"github.com/indexsupply/shovel/shovel/glf"
	"github.com/indexsupply/shovel/wctx"
	"pgregory.net/rapid"

	"encoding/json"

	"verifharness/evid"
	"verifharness/gen"
	"verifharness/model"
	"verifharness/refmodel"
	"verifharness/sim"
)

func u256(x *big.Int) uint256.Int {
	var u uint256.Int
	if x != nil {
		u.SetFromBig(x)
	}
	return u
}

// toEthBlock converts a simulated block into the in-memory form the client
// hands to the row builder when every RPC method has been used.
func toEthBlock(b *sim.Block) eth.Block {
	eb := eth.Block{Header: eth.Header{Number: eth.Uint64(b.Num), Hash: append([]byte{}, b.Hash...), Parent: append([]byte{}, b.Parent...), Time: eth.Uint64(b.Time)}}
	for i := range b.Txs {
		tx := &b.Txs[i]
		et := eth.Tx{Idx: eth.Uint64(tx.Idx), Type: eth.Byte(tx.Type), Nonce: eth.Uint64(tx.Nonce), GasPrice: u256(tx.GasPrice), GasLimit: eth.Uint64(tx.Gas),
			From: append([]byte{}, tx.From...), To: append([]byte{}, tx.To...), Value: u256(tx.Value), Data: append([]byte{}, tx.Input...),
			PrecompHash: append([]byte{}, tx.Hash...)}
		if tx.HasFeeCap() {
			et.MaxPriorityFeePerGas, et.MaxFeePerGas = u256(tx.MaxPrio), u256(tx.MaxFee)
		}
		et.Status, et.GasUsed, et.EffectiveGasPrice = eth.Byte(tx.Status), eth.Uint64(tx.GasUsed), u256(tx.EffGasPrice)
		et.ContractAddress = append([]byte{}, tx.ContractAddr...)
		for j := range tx.Logs {
			l := &tx.Logs[j]
			el := eth.Log{Idx: eth.Uint64(l.Idx), Address: append([]byte{}, l.Addr...), Data: append([]byte{}, l.Data...)}
			for _, tp := range l.Topics {
				el.Topics = append(el.Topics, append([]byte{}, tp...))
			}
			et.Logs = append(et.Logs, el)
		}
		for j := range tx.Traces {
			tr := &tx.Traces[j]
			et.TraceActions = append(et.TraceActions, eth.TraceAction{Idx: uint64(j), From: append([]byte{}, tr.From...), To: append([]byte{}, tr.To...), Value: u256(tr.Value), CallType: tr.CallType})
		}
		eb.Txs = append(eb.Txs, et)
	}
	return eb
}

// pivots around which comparison filters are generated
var c12Pivots = []string{"3", "255", "256", "18446744073709551615", "18446744073709551616", "340282366920938463463374607431768211461",
	"115792089237316195423570985008687907853269984665640564039457584007913129639934"}

// c12Decl: a log-, tx- or trace-indexing declaration with 1..3 filters drawn from
// every operator x value kind, both aggregations, optional reference filter.
func c12Decl(rt *rapid.T, pool *gen.Pool) (*refmodel.Decl, *big.Int) {
	d := &refmodel.Decl{Name: "ig", Enabled: true, Table: "tb", Filters: map[*refmodel.Type]*refmodel.Filter{}, Sources: []refmodel.SourceRef{{Name: "src1", Start: 1}}}
	kind := rapid.SampledFrom([]string{"log", "log", "tx", "trace"}).Draw(rt, "kind")
	var pivot *big.Int
	var fields []string
	switch kind {
	case "log":
		ev := &refmodel.Event{Name: "Flt"}
		add := func(t *refmodel.Type, name string) {
			t.Name, t.Column = name, name
			ev.Inputs = append(ev.Inputs, t)
		}
		if rapid.IntRange(0, 2).Draw(rt, "filteronly") == 0 {
			// an input that is only filtered on, not stored (no column), in front of the stored ones
			ev.Inputs = append(ev.Inputs, &refmodel.Type{Kind: refmodel.KUint, Bits: 64, Name: "fo"})
		}
		add(&refmodel.Type{Kind: refmodel.KAddress, Indexed: rapid.Bool().Draw(rt, "aidx")}, "a")
		add(&refmodel.Type{Kind: refmodel.KUint, Bits: 256, Indexed: rapid.Bool().Draw(rt, "nidx")}, "n")
		add(&refmodel.Type{Kind: refmodel.KString}, "s")
		add(&refmodel.Type{Kind: refmodel.KBytes}, "b")
		add(&refmodel.Type{Kind: refmodel.KUint, Bits: 64}, "m")
		if rapid.Bool().Draw(rt, "arr") {
			add(&refmodel.Type{Kind: refmodel.KArray, Len: -1, Elem: &refmodel.Type{Kind: refmodel.KUint, Bits: 256}}, "arr")
		}
		if rapid.Bool().Draw(rt, "tup") {
			// a struct input: filters may sit on its components only
			tup := &refmodel.Type{Kind: refmodel.KTuple, Name: "t", Fields: []*refmodel.Type{
				{Kind: refmodel.KAddress, Name: "ta", Column: "ta"}, {Kind: refmodel.KUint, Bits: 64, Name: "tn", Column: "tn"}}}
			ev.Inputs = append(ev.Inputs, tup)
		}
		d.Event = ev
		for _, s := range ev.Selected() {
			d.Columns = append(d.Columns, refmodel.Column{Name: s.Column, Type: gen.ColTypeFor(s.Leaf)})
		}
		fields = []string{"log_addr", "tx_to", "tx_input", "tx_value", "tx_nonce", "block_num", "log_idx", "tx_idx", "tx_signer"}
	case "tx":
		fields = []string{"tx_to", "tx_signer", "tx_input", "tx_value", "tx_nonce", "block_num", "tx_idx", "tx_hash", "block_time"}
	default:
		fields = []string{"trace_action_from", "trace_action_to", "trace_action_value", "trace_action_call_type", "tx_to", "tx_value", "block_num", "tx_idx"}
	}
	for _, f := range fields {
		d.Block = append(d.Block, refmodel.BlockField{Name: f, Column: f})
		d.Columns = append(d.Columns, refmodel.Column{Name: f, Type: gen.FieldColType[f]})
	}
	// filters
	type cand struct {
		in   *refmodel.Type
		bf   int
		kind string
	}
	var cands []cand
	if d.Event != nil {
		var addCand func(in *refmodel.Type)
		addCand = func(in *refmodel.Type) {
			b, _ := in.Base()
			k := ""
			switch b.Kind {
			case refmodel.KTuple:
				for _, f := range b.Fields {
					addCand(f)
					addCand(f) // nested components: twice as likely
				}
				return
			case refmodel.KAddress:
				k = "addr"
			case refmodel.KBytes:
				k = "bytes"
			case refmodel.KString:
				k = "string"
			case refmodel.KUint:
				k = "uint"
			}
			cands = append(cands, cand{in: in, bf: -1, kind: k})
		}
		for _, in := range d.Event.Inputs {
			addCand(in)
		}
	}
	for i, b := range d.Block {
		k := map[string]string{"log_addr": "addr", "tx_to": "addr", "tx_signer": "addr", "trace_action_from": "addr", "trace_action_to": "addr", "tx_input": "bytes", "tx_hash": "",
			"tx_value": "uint", "trace_action_value": "uint", "tx_nonce": "uint64", "block_num": "uint64", "log_idx": "uint64", "tx_idx": "uint64", "block_time": "", "trace_action_call_type": "calltype"}[b.Name]
		if k != "" {
			cands = append(cands, cand{bf: i, kind: k})
		}
	}
	nf := rapid.IntRange(1, 3).Draw(rt, "nfilters")
	for i := 0; i < nf; i++ {
		c := rapid.SampledFrom(cands).Draw(rt, "cand")
		var f *refmodel.Filter
		switch c.kind {
		case "uint":
			op := rapid.SampledFrom([]string{"eq", "ne", "gt", "lt"}).Draw(rt, "op")
			pv := rapid.SampledFrom(c12Pivots).Draw(rt, "pivot")
			pivot, _ = new(big.Int).SetString(pv, 10)
			f = &refmodel.Filter{Op: op, Args: []string{pv}}
		case "uint64":
			arg := fmt.Sprint(rapid.IntRange(0, 12).Draw(rt, "arg"))
			if rapid.IntRange(0, 3).Draw(rt, "padded") == 0 {
				arg = fmt.Sprintf("%0*s", rapid.IntRange(2, 5).Draw(rt, "padwidth"), arg) // decimal with leading zeros
			}
			f = &refmodel.Filter{Op: rapid.SampledFrom([]string{"eq", "ne", "gt", "lt"}).Draw(rt, "op"), Args: []string{arg}}
		case "calltype":
			f = &refmodel.Filter{Op: rapid.SampledFrom([]string{"contains", "!contains", "eq", "ne"}).Draw(rt, "op"), Args: []string{rapid.SampledFrom([]string{"call", "delegatecall", "staticcall"}).Draw(rt, "arg")}}
		case "addr":
			if rapid.IntRange(0, 3).Draw(rt, "useref") == 0 {
				f = &refmodel.Filter{Op: rapid.SampledFrom([]string{"contains", "!contains"}).Draw(rt, "op"), Ref: &refmodel.Ref{Integration: "reftab", Column: "addr"}}
			} else {
				f = gen.GenFilterFor(rt, "addr", pool)
			}
		default:
			f = gen.GenFilterFor(rt, c.kind, pool)
		}
		if c.bf >= 0 {
			d.Block[c.bf].Filter = f
		} else {
			d.Filters[c.in] = f
		}
	}
	d.FilterAgg = rapid.SampledFrom([]string{"", "and", "or"}).Draw(rt, "agg")
	return d, pivot
}

// refDecl: the integration referenced by filter_ref in c12 (its table content is scripted).
func c12RefDecl() *refmodel.Decl {
	return &refmodel.Decl{Name: "reftab", Enabled: true, Table: "reftab", Filters: map[*refmodel.Type]*refmodel.Filter{},
		Block: []refmodel.BlockField{{Name: "tx_signer", Column: "addr"}}, Columns: []refmodel.Column{{Name: "addr", Type: "bytea"}}, Sources: []refmodel.SourceRef{{Name: "src1", Start: 1}}}
}

// c12Chain: contents whose values sit around the filter arguments.
func c12Chain(rt *rapid.T, d *refmodel.Decl, pool *gen.Pool, pivot *big.Int, nblocks int) *sim.Chain {
	c := sim.NewChain()
	co := gen.ChainOpts{MaxTxs: 3, MaxLogs: 3, MaxTraces: 2, Pool: pool, Values: gen.ValueOpts{MaxDynLen: 3, MaxBytes: 20, Pool: pool}, EveryBlockTraced: d.Kind() == "trace"}
	if d.Event != nil {
		co.Events = []*refmodel.Event{d.Event}
	}
	for i := 0; i < nblocks; i++ {
		txs := gen.GenTxs(rt, co)
		if pivot != nil {
			// plant boundary values: pivot-1, pivot, pivot+1
			for ti := range txs {
				delta := int64(rapid.IntRange(-1, 1).Draw(rt, "delta"))
				v := new(big.Int).Add(pivot, big.NewInt(delta))
				if v.Sign() >= 0 && v.BitLen() <= 256 && rapid.Bool().Draw(rt, "plant") {
					txs[ti].Value = v
					for tj := range txs[ti].Traces {
						txs[ti].Traces[tj].Value = new(big.Int).Set(v)
					}
					for li := range txs[ti].Logs {
						l := &txs[ti].Logs[li]
						if l.Kind != "match" {
							continue
						}
						for vi, in := range l.Event.Inputs {
							if in.Kind == refmodel.KUint && in.Bits == 256 {
								w := make([]byte, 32)
								v.FillBytes(w)
								l.Vals[vi].Word = w
							}
						}
						l.Topics, l.Data = l.Event.LogOf(l.Vals)
					}
				}
			}
		}
		c.Append(txs)
	}
	return c
}

func c12Describe(d *refmodel.Decl) string {
	m := &machine{decls: []*refmodel.Decl{d}}
	s := m.describeConfig()
	for in, f := range d.Filters {
		if f.Active() {
			ref := ""
			if f.Ref != nil {
				ref = " ref"
			}
			s += fmt.Sprintf(" input %s{%s %v%s}", in.Name, f.Op, f.Args, ref)
		}
	}
	return s
}

func c12Nontrivial(d *refmodel.Decl) (mixed bool, negAddr bool) {
	n := 0
	for _, f := range d.Filters {
		if f.Active() {
			n++
		}
	}
	for _, b := range d.Block {
		if b.Filter.Active() {
			n++
			if b.Name == "log_addr" && (b.Filter.Op == "!contains" || b.Filter.Op == "ne" || d.Agg() == "or") {
				negAddr = true
			}
		}
	}
	return n >= 2, negAddr
}

// c12RowBuilderRun: declaration -> shovel's config code -> dig.New -> Insert with a
// capturing connection; compares the emitted rows with the model. Returns the
// number of expected rows and a violation text.
func c12RowBuilderRun(d *refmodel.Decl, sblocks []*sim.Block, refSet map[string]bool, fromDB bool) (int, string) {
	raw, _ := json.Marshal(map[string]any{"pg_url": "x", "eth_sources": []any{map[string]any{"name": "src1", "chain_id": 5, "url": "http://x"}}, "integrations": []any{d.JSON(), c12RefDecl().JSON()}})
	var conf config.Root
	if err := json.Unmarshal(raw, &conf); err != nil {
		return 0, "config: " + err.Error()
	}
	if err := config.ValidateFix(&conf); err != nil {
		return 0, fmt.Sprintf("configuration in the filter domain refused: %v", err)
	}
	ig := conf.Integrations[0]
	if c12AggSpelling != "" && d.FilterAgg != "" {
		// the same aggregation spelled with capitals: a stored integration carries it as written
		// (dig.New is documented to be case-insensitive); in a file it is refused or honoured
		raw2, _ := json.Marshal(map[string]any{"pg_url": "x", "eth_sources": []any{map[string]any{"name": "src1", "chain_id": 5, "url": "http://x"}}, "integrations": []any{withAgg(d.JSON(), c12AggSpelling), c12RefDecl().JSON()}})
		var conf2 config.Root
		if err := json.Unmarshal(raw2, &conf2); err != nil {
			return 0, "config: " + err.Error()
		}
		if fromDB {
			ig.FilterAGG = c12AggSpelling
		} else if err := config.ValidateFix(&conf2); err == nil {
			ig = conf2.Integrations[0]
		}
	}
	if fromDB && d.FilterAgg == "" {
		// an integration stored through the dashboard is loaded without ValidateFix:
		// an omitted filter_agg reaches the row builder empty (documented default: or)
		ig.FilterAGG = ""
	}
	dg, err := dig.New(ig.Name, ig.Event, ig.Block, ig.Table, ig.Notification, ig.FilterAGG)
	if err != nil {
		return 0, "dig.New: " + err.Error()
	}
	var blocks []eth.Block
	for _, b := range sblocks {
		blocks = append(blocks, toEthBlock(b))
	}
	cc := &capConn{refs: map[string]bool{}}
	for k := range refSet {
		cc.refs["reftab|addr|"+k] = true
	}
	ctx := wctx.WithChainID(wctx.WithSrcName(context.Background(), "src1"), 5)
	var ierr error
	if p := catch(func() { _, ierr = dg.Insert(ctx, new(sync.Mutex), cc, blocks) }); p != nil {
		return 0, fmt.Sprintf("Insert panicked: %v", p)
	}
	if ierr != nil {
		return 0, fmt.Sprintf("Insert failed: %v", ierr)
	}
	dd := d.WithRequired()
	want := model.Project(dd, sblocks, "src1", 5, func(ref *refmodel.Ref, val []byte, _ uint64) bool { return refSet[hex.EncodeToString(val)] })
	var stored []map[string]any
	for _, r := range cc.rows {
		m := map[string]any{}
		for i, c := range cc.cols {
			v := canon(r[i])
			if e, ok := v.(error); ok {
				return len(want), fmt.Sprintf("unrenderable value in column %s: %v", c, e)
			}
			m[c] = v
		}
		stored = append(stored, m)
	}
	if df := model.Diff(dd, want, stored); df != "" {
		return len(want), "emitted rows != rows the declared filters accept: " + df
	}
	// the restriction derived for eth_getLogs (whatever mix of argument and reference
	// filters it was derived from) excludes no log that the model accepts
	if d.Kind() == "log" {
		var flt glf.Filter
		if p := catch(func() { flt = dg.Filter() }); p != nil {
			return len(want), fmt.Sprintf("Integration.Filter panicked: %v", p)
		}
		if addrs := flt.Addresses(); len(addrs) > 0 {
			allowed := map[string]bool{}
			for _, a := range addrs {
				allowed[strings.ToLower(strings.TrimPrefix(a, "0x"))] = true
			}
			for _, r := range want {
				for _, b := range sblocks {
					if b.Num != r.BlockNum {
						continue
					}
					for ti := range b.Txs {
						for li := range b.Txs[ti].Logs {
							l := &b.Txs[ti].Logs[li]
							if int(l.Idx) == r.LogIdx && b.Txs[ti].Idx == r.TxIdx && !allowed[hex.EncodeToString(l.Addr)] {
								return len(want), fmt.Sprintf("the address list sent with eth_getLogs %v excludes the log at block %d index %d from %x, which the declared filters accept", addrs, b.Num, l.Idx, l.Addr)
							}
						}
					}
				}
			}
		}
	}
	return len(want), ""
}

// c12AggSpelling: when set, filter_agg is written with this spelling (same word, other case).
var c12AggSpelling string

func withAgg(j map[string]any, agg string) map[string]any {
	out := map[string]any{}
	for k, v := range j {
		out[k] = v
	}
	out["filter_agg"] = agg
	return out
}

// TestC12_KnownFindings: regressions of repaired defects.
func TestC12_KnownFindings(t *testing.T) {
	// fixed: filter_ref on a component of a tuple input was never resolved to a table
	knownFinding(t, "C12", "C12/filter-ref-on-tuple-component-unresolved", func() string {
		ev := &refmodel.Event{Name: "Flt"}
		ta := &refmodel.Type{Kind: refmodel.KAddress, Name: "ta", Column: "ta"}
		tn := &refmodel.Type{Kind: refmodel.KUint, Bits: 64, Name: "tn", Column: "tn"}
		ev.Inputs = []*refmodel.Type{{Kind: refmodel.KTuple, Name: "t", Fields: []*refmodel.Type{ta, tn}}}
		for _, op := range []string{"contains", "!contains"} {
			d := &refmodel.Decl{Name: "ig", Enabled: true, Table: "tb", Event: ev, Filters: map[*refmodel.Type]*refmodel.Filter{ta: {Op: op, Ref: &refmodel.Ref{Integration: "reftab", Column: "addr"}}},
				Columns: []refmodel.Column{{Name: "ta", Type: "bytea"}, {Name: "tn", Type: "numeric"}}, Sources: []refmodel.SourceRef{{Name: "src1", Start: 1}}}
			chain := sim.NewChain()
			w := func(x []byte) []byte { y := make([]byte, 32); copy(y[32-len(x):], x); return y }
			var logs []sim.Log
			for i := byte(1); i <= 2; i++ {
				vals := []refmodel.Value{{T: ev.Inputs[0], Elems: []refmodel.Value{{T: ta, Word: w(addrN(i))}, {T: tn, Word: w([]byte{i})}}}}
				topics, data := ev.LogOf(vals)
				logs = append(logs, sim.Log{Addr: addrN(9), Topics: topics, Data: data, Event: ev, Vals: vals, Kind: "match"})
			}
			tx := plainTx(1)[0]
			tx.Logs = logs
			chain.Append([]sim.Tx{tx})
			if _, v := c12RowBuilderRun(d, chain.Blocks[1:], map[string]bool{hex.EncodeToString(addrN(1)): true}, false); v != "" {
				return op + " with the first of two addresses in the referenced table: " + v
			}
		}
		return ""
	})
}

// TestC12_RowBuilder: dig level with a capturing connection and a scripted reference lookup.
func TestC12_RowBuilder(t *testing.T) {
	ev := evid.For("C12", "RowBuilder")
	rapid.Check(t, func(rt *rapid.T) {
		pool := gen.NewPool()
		d, pivot := c12Decl(rt, pool)
		chain := c12Chain(rt, d, pool, pivot, rapid.IntRange(1, 3).Draw(rt, "nblocks"))
		// scripted referenced table contents: a subset of the pool addresses
		refSet := map[string]bool{}
		for _, a := range pool.Addrs {
			if rapid.Bool().Draw(rt, "inref") {
				refSet[hex.EncodeToString(a)] = true
			}
		}
		var sblocks []*sim.Block
		for _, b := range chain.Blocks[1:] {
			sblocks = append(sblocks, b)
		}
		stored := rapid.Bool().Draw(rt, "stored")
		c12AggSpelling = ""
		if d.FilterAgg != "" && rapid.IntRange(0, 2).Draw(rt, "aggcase") == 0 {
			c12AggSpelling = rapid.SampledFrom([]string{strings.ToUpper(d.FilterAgg), strings.Title(d.FilterAgg)}).Draw(rt, "aggspelling")
		}
		want, v := c12RowBuilderRun(d, sblocks, refSet, stored)
		c12AggSpelling = ""
		if v != "" {
			rt.Fatalf("VERIF-VIOLATION property=C12 %s\n %s\n referenced-table=%v", v, c12Describe(d), refSet)
		}
		mixed, negAddr := c12Nontrivial(d)
		total := 0
		for _, b := range sblocks {
			for _, tx := range b.Txs {
				total += 1 + len(tx.Logs) + len(tx.Traces)
			}
		}
		ev.Case(mixed || negAddr, c12Describe(d)+fmt.Sprint(want, total), fmt.Sprintf("mixed=%v", mixed), fmt.Sprintf("negOrOrLogAddr=%v", negAddr), "kind="+d.Kind(), fmt.Sprintf("accepted>0=%v", want > 0), fmt.Sprintf("rejectedSome=%v", want < total))
		if mixed && ev.WantSample(3) {
			ev.Sample(3, map[string]any{"declaration": c12Describe(d), "rows_accepted": want})
		}
	})
}

// TestC12_Pushdown: full wire path; the node really applies address/topics.
// Metamorphic: the same case against a node that ignores the pushdown gives the
// same table, and both equal the projection (which knows nothing of pushdown).
func TestC12_Pushdown(t *testing.T) {
	ev := evid.For("C12", "Pushdown")
	rapid.Check(t, func(rt *rapid.T) {
		pool := gen.NewPool()
		var d *refmodel.Decl
		var pivot *big.Int
		for {
			d, pivot = c12Decl(rt, pool)
			if d.Kind() == "log" {
				break
			}
		}
		// make sure a log_addr filter is present in most cases
		if rapid.IntRange(0, 3).Draw(rt, "forceaddr") != 0 {
			for i := range d.Block {
				if d.Block[i].Name == "log_addr" {
					d.Block[i].Filter = gen.GenFilterFor(rt, "addr", pool)
				}
			}
		}
		// reference filters need the referenced integration in the world: drop them here
		for k, f := range d.Filters {
			if f.Ref != nil {
				delete(d.Filters, k)
			}
		}
		for i := range d.Block {
			if d.Block[i].Filter != nil && d.Block[i].Filter.Ref != nil {
				d.Block[i].Filter = nil
			}
		}
		chain := c12Chain(rt, d, pool, pivot, rapid.IntRange(1, 4).Draw(rt, "nblocks"))
		batch := rapid.IntRange(1, 3).Draw(rt, "batch")
		var tables [2][]string
		var wopts []WorldOpt
		storedIg := rapid.Bool().Draw(rt, "storedintegration")
		if storedIg {
			// stored through the dashboard: loaded as written (an omitted filter_agg stays omitted)
			wopts = append(wopts, WithStoredIntegrations())
		}
		for variant := 0; variant < 2; variant++ {
			node := sim.NewNode(chain.Clone())
			node.NoLogFilter = variant == 1
			dc := *d
			w, err := NewWorld(quietT{}, []*SourceCfg{{Name: "src1", ChainID: 5, Batch: batch, Conc: 1, Node: node}}, []*refmodel.Decl{&dc}, wopts...)
			if w != nil {
				defer w.Close()
			}
			if err != nil {
				rt.Fatalf("VERIF-VIOLATION property=C12 configuration refused: %v\n %s", err, c12Describe(d))
			}
			p := w.Pairs[0]
			for i := 0; i < 7; i++ {
				if r := w.Step(p); r.Panic != nil {
					rt.Fatalf("VERIF-VIOLATION property=C12 Converge panicked: %v", r.Panic)
				}
			}
			if c := w.Cursor(p); !c.OK || c.Num != chain.Head().Num {
				rt.Fatalf("VERIF-VIOLATION property=C12 indexing does not reach the head (%s)\n %s", curStr(c), c12Describe(d))
			}
			if v := w.CheckPair(p); v != "" {
				what := "node applying address/topics"
				if variant == 1 {
					what = "node ignoring address/topics"
				}
				rt.Fatalf("VERIF-VIOLATION property=C12 (%s) %s\n %s\n eth_getLogs filters seen: %+v", what, v, c12Describe(d), node.LogFilters())
			}
			tables[variant] = storedStrings(p.Decl, w.TableRows(p))
		}
		if miss := subsetRows(tables[1], tables[0]); len(miss) > 0 {
			rt.Fatalf("VERIF-VIOLATION property=C12 the address/topic restriction sent to the source lost %d accepted row(s), e.g. %.300s\n %s", len(miss), miss[0], c12Describe(d))
		}
		mixed, negAddr := c12Nontrivial(d)
		ev.Case(mixed || negAddr, c12Describe(d)+fmt.Sprint(len(tables[0])), fmt.Sprintf("mixed=%v", mixed), fmt.Sprintf("negOrOrLogAddr=%v", negAddr), fmt.Sprintf("rows>0=%v", len(tables[0]) > 0))
		if negAddr && ev.WantSample(3) {
			ev.Sample(3, map[string]any{"declaration": c12Describe(d), "rows": len(tables[0])})
		}
	})
}
