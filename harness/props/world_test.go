package props

// The simulated environment shared by the indexing state machine (DESIGN.md §4):
// real jrpc2.Client --HTTP--> sim.Node, real pgxpool --pg wire--> fakepg,
// real shovel.Task built the way loadTasks builds it.

import (
	"context"
	"encoding/json"
	"errors"
	"fmt"
	"math/big"
	"sort"
	"strings"
	"sync"
	"sync/atomic"
	"time"

	"github.com/indexsupply/shovel/jrpc2"
	"github.com/indexsupply/shovel/shovel"
	"github.com/indexsupply/shovel/shovel/config"
	"github.com/indexsupply/shovel/wctx"
	"github.com/jackc/pgx/v5/pgxpool"

	"verifharness/fakepg"
	"verifharness/model"
	"verifharness/refmodel"
	"verifharness/sim"
)

var (
	envOnce sync.Once
	pgSrv   *fakepg.Server
	nodeSrv *sim.Server
	dbSeq   atomic.Int64
)

func env() (*fakepg.Server, *sim.Server) {
	envOnce.Do(func() {
		pgSrv = fakepg.Start()
		nodeSrv = sim.StartServer()
	})
	return pgSrv, nodeSrv
}

type fataler interface {
	Fatalf(format string, args ...any)
	Logf(format string, args ...any)
}

type SourceCfg struct {
	Name    string
	ChainID uint64
	Batch   int
	StrayStart, StrayStop uint64 // start / stop written on the eth_sources entry (no effect)
	TwoURLs bool   // the source is configured with two URLs (both reach Node)
	URL2    string
	Conc    int
	Node    *sim.Node
	URL     string
	client  *jrpc2.Client
}

type Pair struct {
	Src   *SourceCfg
	Decl  *refmodel.Decl // with required fields
	Start uint64
	Stop  uint64
	task  *shovel.Task
	ig    config.Integration

	// model state
	First     uint64 // first block this pair indexes; valid when FirstSet
	FirstSet  bool
	Steps     int
	OKSteps   int
	LastErr   error
	Done      bool
	headsSeen []uint64 // node head at each "latest" request of the current step
}

func (p *Pair) Key() string { return p.Src.Name + "/" + p.Decl.Name }

type World struct {
	t       fataler
	db      *fakepg.DB
	dbName  string
	pool    *pgxpool.Pool
	Sources []*SourceCfg
	Pairs   []*Pair
	conf    config.Root
	decls   []*refmodel.Decl
	closed  bool
	// Lookup resolves filter references against the committed store.
	stepping   *Pair
	preMigrate func(db *fakepg.DB)
	storeIgs   bool                 // integrations live in shovel.integrations, not in the file
	igs        []config.Integration // every integration (validated), wherever it is kept
	mu         sync.Mutex
}

// NewWorld validates and migrates the configuration through shovel's own code
// and builds one task per (integration, source).
// WorldOpt customises world construction.
type WorldOpt func(w *World)

// WithPreMigrate runs f on the database after shovel's own schema exists and
// before config.Migrate (pre-existing user tables).
func WithPreMigrate(f func(db *fakepg.DB)) WorldOpt { return func(w *World) { w.preMigrate = f } }

// WithStoredIntegrations keeps the integrations in shovel.integrations (as the dashboard
// stores them: validated, complete JSON) instead of the file; the file then lists sources only.
func WithStoredIntegrations() WorldOpt { return func(w *World) { w.storeIgs = true } }

func NewWorld(t fataler, sources []*SourceCfg, decls []*refmodel.Decl, opts ...WorldOpt) (*World, error) {
	pg, ns := env()
	w := &World{t: t, Sources: sources, decls: decls}
	for _, o := range opts {
		o(w)
	}
	w.dbName = fmt.Sprintf("db%d", dbSeq.Add(1))
	w.db = pg.NewDB(w.dbName)
	w.db.ApplyShovelSchema()
	var srcJSON []any
	for _, s := range sources {
		if s.Node == nil {
			s.Node = sim.NewNode(sim.NewChain())
		}
		s.Node.ChainID = s.ChainID
		s.URL = ns.Attach(s.Node, "")
		sj := map[string]any{"name": s.Name, "chain_id": s.ChainID, "url": s.URL, "batch_size": s.Batch, "concurrency": s.Conc, "poll_duration": "1h"}
		if s.StrayStart > 0 {
			// start / stop on the eth_sources entry itself: accepted by the decoder, without meaning there
			// (a range belongs to an integration's reference to the source)
			sj["start"] = s.StrayStart
			if s.StrayStop > 0 {
				sj["stop"] = s.StrayStop
			}
		}
		if s.TwoURLs {
			// a second endpoint of the same provider: requests rotate over both
			s.URL2 = ns.Attach(s.Node, "")
			sj["urls"] = []any{s.URL2}
		}
		srcJSON = append(srcJSON, sj)
	}
	var igJSON []any
	for _, d := range decls {
		igJSON = append(igJSON, d.JSON())
	}
	raw, err := json.Marshal(map[string]any{"pg_url": pg.URL(w.dbName), "eth_sources": srcJSON, "integrations": igJSON})
	if err != nil {
		return nil, err
	}
	if err := json.Unmarshal(raw, &w.conf); err != nil {
		return nil, fmt.Errorf("config decode: %w", err)
	}
	if err := config.ValidateFix(&w.conf); err != nil {
		return w, fmt.Errorf("ValidateFix: %w", err)
	}
	w.pool, err = pgxpool.New(context.Background(), pg.URL(w.dbName))
	if err != nil {
		return w, err
	}
	if w.preMigrate != nil {
		w.preMigrate(w.db)
	}
	if err := config.Migrate(context.Background(), w.pool, w.conf); err != nil {
		return w, fmt.Errorf("Migrate: %w", err)
	}
	w.igs = w.conf.Integrations
	if w.storeIgs {
		for i, ig := range w.igs {
			if i < len(w.decls) && w.decls[i].FilterAgg == "" {
				// nothing fills in a default for a stored integration: what the declaration omits stays omitted
				ig.FilterAGG = ""
			}
			cj, err := json.Marshal(ig)
			if err != nil {
				return w, err
			}
			if _, err := w.pool.Exec(context.Background(), `insert into shovel.integrations(name, conf) values ($1, $2)`, ig.Name, cj); err != nil {
				return w, fmt.Errorf("storing integration: %w", err)
			}
		}
		w.conf.Integrations = nil
	}
	if err := w.buildTasks(); err != nil {
		return w, err
	}
	return w, nil
}

func (s *SourceCfg) urls() []string {
	if s.URL2 != "" {
		return []string{s.URL, s.URL2}
	}
	return []string{s.URL}
}

func (w *World) source(name string) *SourceCfg {
	for _, s := range w.Sources {
		if s.Name == name {
			return s
		}
	}
	return nil
}

// buildTasks mirrors shovel.loadTasks: one client per source shared by its
// tasks (WithMaxReads(#integrations)), context stamped with chain id, source
// and integration name.
func (w *World) buildTasks() error {
	old := map[string]*Pair{}
	for _, p := range w.Pairs {
		old[p.Key()] = p
	}
	w.Pairs = nil
	// the tasks are built by shovel's own loadTasks (hook VerifLoadTasks): one client per
	// source shared by its tasks, context stamped with chain id, source and integration name
	for i := range w.conf.Sources {
		// (the operator may have edited the file between two starts)
		if s := w.source(w.conf.Sources[i].Name); s != nil {
			w.conf.Sources[i].BatchSize, w.conf.Sources[i].Concurrency = s.Batch, s.Conc
		}
	}
	tasks, err := shovel.VerifLoadTasks(context.Background(), w.pool, w.conf)
	if err != nil {
		return fmt.Errorf("loadTasks: %w", err)
	}
	byKey := map[string]*shovel.Task{}
	for _, t := range tasks {
		ti := t.VerifInfo()
		k := ti.SrcName + "/" + ti.IGName
		if byKey[k] != nil {
			return fmt.Errorf("loadTasks built two tasks for %s", k)
		}
		byKey[k] = t
	}
	for _, s := range w.Sources {
		s.client = nil
	}
	for i, ig := range w.igs {
		if !ig.Enabled {
			continue
		}
		for _, sr := range ig.Sources {
			s := w.source(sr.Name)
			if s == nil {
				return fmt.Errorf("unknown source %s", sr.Name)
			}
			task := byKey[s.Name+"/"+ig.Name]
			if task == nil {
				return fmt.Errorf("loadTasks built no task for %s/%s", s.Name, ig.Name)
			}
			delete(byKey, s.Name+"/"+ig.Name)
			// the range as DECLARED (not as shovel parsed it)
			wantStart, wantStop := uint64(sr.Start), uint64(sr.Stop)
			for _, ds := range w.decls[i].Sources {
				if ds.Name == sr.Name {
					wantStart, wantStop = ds.Start, ds.Stop
				}
			}
			if ti := task.VerifInfo(); ti.Start != wantStart || ti.Stop != wantStop || ti.ChainID != s.ChainID {
				return fmt.Errorf("loadTasks built %+v for %s/%s (configured start %d stop %d batch %d chain %d)", ti, s.Name, ig.Name, wantStart, wantStop, s.Batch, s.ChainID)
			}
			p := &Pair{Src: s, Decl: w.decls[i].WithRequired(), Start: wantStart, Stop: wantStop, task: task, ig: ig}
			if o := old[p.Key()]; o != nil {
				p.First, p.FirstSet, p.Steps, p.OKSteps, p.Done = o.First, o.FirstSet, o.Steps, o.OKSteps, o.Done
			}
			w.Pairs = append(w.Pairs, p)
		}
	}
	if len(byKey) > 0 {
		return fmt.Errorf("loadTasks built %d tasks nobody configured", len(byKey))
	}
	for _, s := range w.Sources {
		s := s
		s.Node.Lock()
		if s.Node.OnRequest == nil {
			s.Node.OnRequest = func(n *sim.Node, ri sim.ReqInfo) *sim.Fault { return w.onRequest(s, n, ri) }
		}
		s.Node.Unlock()
	}
	return nil
}

// Hook is an extra per-request hook a test may install (mid-step growth, reorg, faults).
var _ = 0

type ReqHook func(s *SourceCfg, n *sim.Node, ri sim.ReqInfo) *sim.Fault

var worldHooks sync.Map // *World -> ReqHook

func (w *World) SetHook(h ReqHook) {
	if h == nil {
		worldHooks.Delete(w)
		return
	}
	worldHooks.Store(w, h)
}

func (w *World) onRequest(s *SourceCfg, n *sim.Node, ri sim.ReqInfo) *sim.Fault {
	var f *sim.Fault
	if h, ok := worldHooks.Load(w); ok {
		f = h.(ReqHook)(s, n, ri)
	}
	if ri.Kind == "latest" {
		w.mu.Lock()
		if p := w.stepping; p != nil && p.Src == s {
			p.headsSeen = append(p.headsSeen, n.Chain.Head().Num)
		}
		w.mu.Unlock()
	}
	return f
}

// Restart models process death: every connection dropped, all in-memory state
// (pool, clients, tasks, caches) discarded and rebuilt from configuration.
func (w *World) Restart() error {
	w.closePool()
	w.db.KillAll()
	pg, _ := env()
	var err error
	w.pool, err = pgxpool.New(context.Background(), pg.URL(w.dbName))
	if err != nil {
		return err
	}
	return w.buildTasks()
}

// closePool closes the pool; pgxpool.Close waits for every checked-out connection, so a
// connection leaked by the code under test would block it forever: then it is left to a goroutine.
func (w *World) closePool() {
	p := w.pool
	for i := 0; i < 300 && p.Stat().AcquiredConns() > 0; i++ {
		time.Sleep(time.Millisecond)
	}
	if p.Stat().AcquiredConns() > 0 {
		go p.Close()
		return
	}
	p.Close()
}

func (w *World) Close() {
	if w.closed {
		return
	}
	w.closed = true
	worldHooks.Delete(w)
	if w.pool != nil {
		w.closePool()
	}
	pg, ns := env()
	for _, s := range w.Sources {
		ns.Detach(s.URL)
		if s.URL2 != "" {
			ns.Detach(s.URL2)
		}
	}
	pg.DropDB(w.dbName)
}

// ---- observation -------------------------------------------------------------

type Cursor struct {
	Num  uint64
	Hash []byte
	OK   bool
}

func numOf(v any) uint64 {
	switch x := v.(type) {
	case *big.Int:
		return x.Uint64()
	case int64:
		return uint64(x)
	}
	return 0
}

func cursorOf(rows []map[string]any, src, ig string) Cursor {
	var c Cursor
	for _, r := range rows {
		if r["src_name"] == src && r["ig_name"] == ig {
			n := numOf(r["num"])
			if !c.OK || n > c.Num {
				h, _ := r["hash"].([]byte)
				c = Cursor{Num: n, Hash: h, OK: true}
			}
		}
	}
	return c
}

func (w *World) Cursor(p *Pair) Cursor {
	return cursorOf(w.db.Rows("shovel.task_updates"), p.Src.Name, p.Decl.Name)
}

func pairRows(rows []map[string]any, src, ig string) []map[string]any {
	var out []map[string]any
	for _, r := range rows {
		if r["src_name"] == src && r["ig_name"] == ig {
			out = append(out, r)
		}
	}
	return out
}

func (w *World) TableRows(p *Pair) []map[string]any {
	return pairRows(w.db.Rows(p.Decl.Table), p.Src.Name, p.Decl.Name)
}

// lookupIn answers filter-reference membership against given committed rows.
func (w *World) lookupFn(tables func(name string) []map[string]any) model.Lookup {
	return func(ref *refmodel.Ref, val []byte, _ uint64) bool {
		var table string
		for _, d := range w.decls {
			if d.Name == ref.Integration {
				table = d.Table
			}
		}
		for _, r := range tables(table) {
			if b, ok := r[ref.Column].([]byte); ok && string(b) == string(val) {
				return true
			}
		}
		return false
	}
}

// Expected computes the projection of pair p over canonical blocks [first..upto].
func (w *World) Expected(p *Pair, upto uint64, tables func(string) []map[string]any) []model.Row {
	if !p.FirstSet || upto < p.First {
		return nil
	}
	p.Src.Node.Lock()
	var blocks []*sim.Block
	for n := p.First; n <= upto; n++ {
		if b := p.Src.Node.Chain.At(n); b != nil {
			blocks = append(blocks, b)
		}
	}
	p.Src.Node.Unlock()
	return model.Project(p.Decl, blocks, p.Src.Name, p.Src.ChainID, w.lookupFn(tables))
}

// CheckPair compares the pair's committed rows with the projection up to its cursor.
func (w *World) CheckPair(p *Pair) string {
	cur := w.Cursor(p)
	stored := w.TableRows(p)
	if !cur.OK {
		if len(stored) > 0 {
			return fmt.Sprintf("%s: %d rows but no recorded position", p.Key(), len(stored))
		}
		return ""
	}
	want := w.Expected(p, cur.Num, w.db.Rows)
	if d := model.Diff(p.Decl, want, stored); d != "" {
		return fmt.Sprintf("%s: table != projection of blocks %d..%d: %s", p.Key(), p.First, cur.Num, d)
	}
	return ""
}

// ---- stepping ----------------------------------------------------------------

type StepResult struct {
	Err     error
	Panic   any
	Before  Cursor
	After   Cursor
	Commits []*fakepg.Commit
	Heads   []uint64
	OpenTx  []int // server sessions that still have a transaction open after the step returned
	Held    int32 // pool connections still checked out after the step returned
}

func (r StepResult) Outcome() string {
	switch {
	case r.Panic != nil:
		return "panic"
	case r.Err == nil:
		return "ok"
	case errors.Is(r.Err, shovel.ErrNothingNew):
		return "nothing-new"
	case errors.Is(r.Err, shovel.ErrDone):
		return "done"
	case errors.Is(r.Err, shovel.ErrAhead):
		return "ahead"
	case errors.Is(r.Err, shovel.ErrReorg):
		return "reorg"
	}
	return "error"
}

// Step runs one Converge of pair p and records what it committed.
func (w *World) Step(p *Pair) StepResult {
	res := StepResult{Before: w.Cursor(p)}
	nCommits := len(w.db.Commits())
	nPos := 0
	for _, r := range w.db.Rows("shovel.task_updates") {
		if r["src_name"] == p.Src.Name && r["ig_name"] == p.Decl.Name {
			nPos++
		}
	}
	w.mu.Lock()
	w.stepping = p
	p.headsSeen = nil
	w.mu.Unlock()
	res.Panic = catch(func() { res.Err = p.task.Converge() })
	w.mu.Lock()
	w.stepping = nil
	res.Heads = p.headsSeen
	w.mu.Unlock()
	all := w.db.Commits()
	res.Commits = all[nCommits:]
	res.OpenTx = w.db.OpenTx()
	// (pgx hands a broken connection back from a goroutine of its own: give it a moment;
	// a connection that is never handed back is what is looked for)
	for i := 0; i < 2000; i++ {
		if res.Held = w.pool.Stat().AcquiredConns(); res.Held == 0 {
			break
		}
		time.Sleep(time.Millisecond)
	}
	res.After = w.Cursor(p)
	p.Steps++
	p.LastErr = res.Err
	if res.Panic == nil && res.Err == nil {
		p.OKSteps++
	}
	if p.Start == 0 {
		// a pair that starts at the head begins anew once its whole position history is
		// gone (a reorg of everything it had recorded): from the first block of its next position row
		for _, c := range res.Commits {
			for _, x := range c.Removed {
				if x.Table == "shovel.task_updates" && x.Row["src_name"] == p.Src.Name && x.Row["ig_name"] == p.Decl.Name {
					nPos--
				}
			}
			for _, x := range c.Added {
				if x.Table == "shovel.task_updates" && x.Row["src_name"] == p.Src.Name && x.Row["ig_name"] == p.Decl.Name {
					if nPos == 0 && p.FirstSet {
						if nb := numOf(x.Row["nblocks"]); nb > 0 && numOf(x.Row["num"])+1 >= nb {
							p.First = numOf(x.Row["num"]) + 1 - nb
						}
					}
					nPos++
				}
			}
		}
	}
	if !p.FirstSet && res.After.OK && !res.Before.OK {
		// first recorded position: where did indexing begin?
		if p.Start > 0 {
			p.First = p.Start
		} else if len(res.Heads) > 0 {
			p.First = res.Heads[0]
		}
		p.FirstSet = true
	}
	return res
}

// touched lists "table:src/ig" stamps of rows added/removed by commits.
func touched(cs []*fakepg.Commit) map[string]int {
	m := map[string]int{}
	for _, c := range cs {
		for _, rc := range append(append([]fakepg.RowChange{}, c.Added...), c.Removed...) {
			m[fmt.Sprintf("%s:%v/%v", rc.Table, rc.Row["src_name"], rc.Row["ig_name"])]++
		}
	}
	return m
}

func sortedKeys[V any](m map[string]V) []string {
	ks := make([]string, 0, len(m))
	for k := range m {
		ks = append(ks, k)
	}
	sort.Strings(ks)
	return ks
}

func errString(e error) string {
	if e == nil {
		return ""
	}
	s := e.Error()
	if len(s) > 160 {
		s = s[:160] + "…"
	}
	return strings.ReplaceAll(s, "\n", " ")
}

// ExpectedLookup is Expected with an explicit reference-lookup function.
func (w *World) ExpectedLookup(p *Pair, upto uint64, lookup model.Lookup) []model.Row {
	if !p.FirstSet || upto < p.First {
		return nil
	}
	p.Src.Node.Lock()
	var blocks []*sim.Block
	for n := p.First; n <= upto; n++ {
		if b := p.Src.Node.Chain.At(n); b != nil {
			blocks = append(blocks, b)
		}
	}
	p.Src.Node.Unlock()
	return model.Project(p.Decl, blocks, p.Src.Name, p.Src.ChainID, lookup)
}

const fakepgDelCursor = `delete from shovel.task_updates where src_name = $1 and ig_name = $2 and num >= $3`

func bigZero() *big.Int { return new(big.Int) }

// rebuildTasksWithClients rebuilds the tasks keeping the clients already set on
// the sources (used when a test installs specially configured clients).
func (w *World) rebuildTasksWithClients() error {
	keep := map[string]*jrpc2.Client{}
	for _, s := range w.Sources {
		keep[s.Name] = s.client
	}
	var pairs []*Pair
	for i, ig := range w.igs {
		if !ig.Enabled {
			continue
		}
		for _, sr := range ig.Sources {
			s := w.source(sr.Name)
			ctx := context.Background()
			ctx = wctx.WithChainID(ctx, s.ChainID)
			ctx = wctx.WithSrcName(ctx, s.Name)
			ctx = wctx.WithIGName(ctx, ig.Name)
			task, err := shovel.NewTask(shovel.WithContext(ctx), shovel.WithPG(w.pool), shovel.WithRange(sr.Start, sr.Stop), shovel.WithConcurrency(s.Conc, s.Batch),
				shovel.WithSrcName(s.Name), shovel.WithChainID(s.ChainID), shovel.WithSource(keep[s.Name]), shovel.WithIntegration(ig))
			if err != nil {
				return err
			}
			pairs = append(pairs, &Pair{Src: s, Decl: w.decls[i].WithRequired(), Start: sr.Start, Stop: sr.Stop, task: task, ig: ig})
		}
	}
	w.Pairs = pairs
	return nil
}
