package props

// C05 — an integration with filter references never runs ahead of what it references.

import (
	"fmt"
	"sort"
	"strings"
	"testing"

	"pgregory.net/rapid"

	"verifharness/evid"
	"verifharness/gen"
	"verifharness/model"
	"verifharness/refmodel"
	"verifharness/sim"
)

func bf(name string) refmodel.BlockField { return refmodel.BlockField{Name: name, Column: name} }

func col(name string) refmodel.Column {
	return refmodel.Column{Name: name, Type: gen.FieldColType[name]}
}

// c05Decls draws a dependency graph: 1-2 referenced integrations and 1-2
// dependants whose filter_ref points at a bytea column of a referenced one.
func c05Decls(rt *rapid.T, pool *gen.Pool) []*refmodel.Decl {
	var decls []*refmodel.Decl
	mkRefTx := func(name string) *refmodel.Decl {
		// transaction indexing keyed on an address column, optionally narrowed by a plain filter
		field := rapid.SampledFrom([]string{"tx_signer", "tx_to"}).Draw(rt, "reffield")
		d := &refmodel.Decl{Name: name, Enabled: true, Table: name, Filters: map[*refmodel.Type]*refmodel.Filter{}}
		d.Block = []refmodel.BlockField{bf(field), bf("tx_hash")}
		d.Columns = []refmodel.Column{col(field), col("tx_hash")}
		if rapid.Bool().Draw(rt, "bothaddrs") {
			// two address columns: references may name either
			other := map[string]string{"tx_signer": "tx_to", "tx_to": "tx_signer"}[field]
			d.Block = []refmodel.BlockField{bf(field), bf(other), bf("tx_hash")}
			d.Columns = []refmodel.Column{col(field), col(other), col("tx_hash")}
		}
		if rapid.Bool().Draw(rt, "narrow") {
			d.Block[0].Filter = gen.GenFilterFor(rt, "addr", pool)
		}
		return d
	}
	mkRefLog := func(name string) *refmodel.Decl {
		ev := &refmodel.Event{Name: "Reg", Inputs: []*refmodel.Type{
			{Kind: refmodel.KAddress, Name: "who", Indexed: rapid.Bool().Draw(rt, "whoidx"), Column: "who"},
			{Kind: refmodel.KUint, Bits: 256, Name: "n", Column: "n"}}}
		d := &refmodel.Decl{Name: name, Enabled: true, Table: name, Event: ev, Filters: map[*refmodel.Type]*refmodel.Filter{}}
		d.Columns = []refmodel.Column{{Name: "who", Type: "bytea"}, {Name: "n", Type: "numeric"}}
		if rapid.Bool().Draw(rt, "refheaders") {
			d.Columns = append(d.Columns, col("block_time"))
			d.Block = []refmodel.BlockField{bf("block_time")}
		}
		// (without block_time the plan is logs only: a position whose last block has no matching
		// log is recorded without a hash)
		return d
	}
	refCol := func(d *refmodel.Decl) string {
		if d.Event != nil {
			return d.Event.Selected()[0].Column // an address column ("who" or "a", possibly a struct component)
		}
		if len(d.Block) == 3 && rapid.Bool().Draw(rt, "refsecondcol") {
			return d.Block[1].Column
		}
		return d.Block[0].Column
	}
	nref := rapid.IntRange(1, 2).Draw(rt, "nref")
	for i := 0; i < nref; i++ {
		name := fmt.Sprintf("ref%d", i+1)
		if rapid.Bool().Draw(rt, "reflog") {
			decls = append(decls, mkRefLog(name))
		} else {
			decls = append(decls, mkRefTx(name))
		}
	}
	ndep := rapid.IntRange(1, 2).Draw(rt, "ndep")
	for i := 0; i < ndep; i++ {
		name := fmt.Sprintf("dep%d", i+1)
		// what it references: one or two earlier integrations (dependants may chain)
		cands := decls
		k := 1
		if len(cands) > 1 && rapid.IntRange(0, 2).Draw(rt, "tworefs") == 0 {
			k = 2
		}
		perm := rapid.Permutation(cands).Draw(rt, "refperm")[:k]
		op := rapid.SampledFrom([]string{"contains", "!contains"}).Draw(rt, "refop")
		// the reference may spell out the table (validation resolves it from the integration
		// whatever the file says)
		mkRef := func(r *refmodel.Decl) *refmodel.Ref {
			ref := &refmodel.Ref{Integration: r.Name, Column: refCol(r)}
			switch rapid.IntRange(0, 3).Draw(rt, "spelltable") {
			case 0:
				ref.Table = r.Table
			case 1:
				ref.Table = "elsewhere"
			}
			return ref
		}
		var d *refmodel.Decl
		if rapid.Bool().Draw(rt, "deplog") {
			// event input references
			ev := &refmodel.Event{Name: "Xfer", Inputs: []*refmodel.Type{
				{Kind: refmodel.KAddress, Name: "a", Indexed: rapid.Bool().Draw(rt, "aidx"), Column: "a"},
				{Kind: refmodel.KAddress, Name: "b", Indexed: false, Column: "b"},
				{Kind: refmodel.KUint, Bits: 256, Name: "v", Column: "v"}}}
			refInputs := []*refmodel.Type{ev.Inputs[0], ev.Inputs[1]}
			if rapid.IntRange(0, 2).Draw(rt, "nestedref") == 0 {
				// the referencing inputs are components of a struct input
				ev.Inputs[0].Indexed = false
				ev.Inputs = []*refmodel.Type{{Kind: refmodel.KTuple, Name: "t", Fields: []*refmodel.Type{ev.Inputs[0], ev.Inputs[1]}}, ev.Inputs[2]}
			}
			d = &refmodel.Decl{Name: name, Enabled: true, Table: name, Event: ev, Filters: map[*refmodel.Type]*refmodel.Filter{}}
			d.Columns = []refmodel.Column{{Name: "a", Type: "bytea"}, {Name: "b", Type: "bytea"}, {Name: "v", Type: "numeric"}, col("block_time")}
			d.Block = []refmodel.BlockField{bf("block_time")}
			for j, r := range perm {
				d.Filters[refInputs[j]] = &refmodel.Filter{Op: op, Ref: mkRef(r)}
			}
		} else {
			d = &refmodel.Decl{Name: name, Enabled: true, Table: name, Filters: map[*refmodel.Type]*refmodel.Filter{}}
			d.Block = []refmodel.BlockField{bf("tx_to"), bf("tx_signer"), bf("tx_hash"), bf("block_time")}
			d.Columns = []refmodel.Column{col("tx_to"), col("tx_signer"), col("tx_hash"), col("block_time")}
			for j, r := range perm {
				d.Block[j].Filter = &refmodel.Filter{Op: op, Ref: mkRef(r)}
			}
		}
		if k == 2 {
			d.FilterAgg = rapid.SampledFrom([]string{"and", "or"}).Draw(rt, "agg")
		}
		// the dependant may write to the table of an integration it references (same row identity:
		// see the open finding on shared tables)
		if identitySig(perm[0]) == identitySig(d) && rapid.IntRange(0, 2).Draw(rt, "sharereftable") == 0 {
			d.Table = perm[0].Table
		}
		decls = append(decls, d)
	}
	return decls
}

// refsOf lists the integrations a declaration references.
func refsOf(d *refmodel.Decl) []string {
	set := map[string]bool{}
	for _, f := range d.Filters {
		if f != nil && f.Ref != nil {
			set[f.Ref.Integration] = true
		}
	}
	for _, b := range d.Block {
		if b.Filter != nil && b.Filter.Ref != nil {
			set[b.Filter.Ref.Integration] = true
		}
	}
	var out []string
	for k := range set {
		out = append(out, k)
	}
	sort.Strings(out)
	return out
}

func subsetRows(a, b []string) (missing []string) {
	have := map[string]int{}
	for _, x := range b {
		have[x]++
	}
	for _, x := range a {
		if have[x] == 0 {
			missing = append(missing, x)
		} else {
			have[x]--
		}
	}
	return
}

func rowStrings(d *refmodel.Decl, rows []model.Row) []string {
	cols := model.DeclColumns(d)
	var out []string
	for _, r := range rows {
		r := r
		out = append(out, model.RowString(cols, func(c string) any { return r.Cells[c] }))
	}
	return out
}

func storedStrings(d *refmodel.Decl, rows []map[string]any) []string {
	cols := model.DeclColumns(d)
	var out []string
	for _, r := range rows {
		r := r
		out = append(out, model.RowString(cols, func(c string) any { return r[c] }))
	}
	return out
}

func c05Property(rt *rapid.T, ev *evid.Rec, reorgs bool) {
	o := machineOpts{MaxBatch: 6, MaxConc: 3, InitBlocks: [2]int{2, 8}, Starts: []string{"one", "mid", "zero"}, CustomDecls: c05Decls, Stops: true, TwoSources: true}
	m := newMachine(rt, o)
	defer m.Close()
	w := m.w
	// chain contents: the referenced and dependent events must occur
	fail := func(f string, a ...any) {
		rt.Fatalf("VERIF-VIOLATION property=C05 %s\n history:\n   %s", fmt.Sprintf(f, a...), m.History())
	}
	pairOf := func(src, ig string) *Pair {
		for _, p := range w.Pairs {
			if p.Src.Name == src && p.Decl.Name == ig {
				return p
			}
		}
		return nil
	}
	behind := false
	notStarted := false
	wiped := false
	st := &c03State{floor: map[string]uint64{}, hasFloor: map[string]bool{}, maxEver: map[string]uint64{}, deletions: map[string]bool{}}
	check := func(p *Pair, r StepResult) {
		if r.Panic != nil {
			fail("Converge panicked: %v", r.Panic)
		}
		refs := refsOf(p.Decl)
		if len(refs) == 0 {
			return
		}
		curs := w.db.Rows("shovel.task_updates")
		head := p.Src.Node.Chain.Head().Num
		for _, rn := range refs {
			rc := cursorOf(curs, p.Src.Name, rn)
			if !rc.OK {
				notStarted = true
				if len(r.Commits) > 0 && r.Err == nil {
					fail("%s committed position %s although referenced integration %s has not recorded any progress", p.Key(), curStr(r.After), rn)
				}
			} else if rc.Num < head {
				behind = true
			}
			if r.Err == nil && r.After.OK && rc.OK && rc.Num < r.After.Num {
				fail("%s recorded position %d while referenced integration %s is only at %d", p.Key(), r.After.Num, rn, rc.Num)
			}
		}
		if p.Stop > 0 && r.After.OK && r.After.Num > p.Stop {
			fail("%s recorded position %d beyond its stop %d", p.Key(), r.After.Num, p.Stop)
		}
	}
	isDep := func(p *Pair) bool { return len(refsOf(p.Decl)) > 0 }
	if reorgs {
		// warm-up: referenced integrations run ahead, dependants lag behind them
		for _, s := range w.Sources {
			m.grow(s, rapid.IntRange(3, 6).Draw(rt, "warmgrow"))
		}
		for round := 0; round < 4; round++ {
			for _, p := range w.Pairs {
				if !isDep(p) || round == 0 {
					check(p, m.step(p))
				}
			}
		}
	}
	nact := rapid.IntRange(4, scale(20, 45)).Draw(rt, "nactions")
	for i := 0; i < nact; i++ {
		switch a := rapid.IntRange(0, 9).Draw(rt, "action"); {
		case a <= 1:
			m.grow(m.pickSource("growsrc"), rapid.IntRange(1, 5).Draw(rt, "grown"))
		case a == 2 && reorgs:
			// the referenced integrations' positions may move backwards
			s := m.pickSource("reorgsrc")
			low, ok := m.lowestCursor(s)
			head := s.Node.Chain.Head().Num
			if !ok || head <= low+1 {
				m.grow(s, 2)
				continue
			}
			depth := rapid.IntRange(1, min(4, int(head-low-1))).Draw(rt, "depth")
			var txs [][]sim.Tx
			for j := rapid.IntRange(depth, depth+2).Draw(rt, "newlen"); j > 0; j-- {
				txs = append(txs, gen.GenTxs(rt, m.copts))
			}
			m.doReorg(st, s, head-uint64(depth)+1, txs, false)
			m.label("reorg")
			// the referenced integrations notice the reorg first, then a dependant runs
			for _, p := range w.Pairs {
				if !isDep(p) && rapid.Bool().Draw(rt, "refstep") {
					check(p, m.step(p))
				}
			}
			for _, p := range w.Pairs {
				if isDep(p) {
					for k := rapid.IntRange(0, 3).Draw(rt, "depsteps"); k > 0; k-- {
						check(p, m.step(p))
					}
				}
			}
		case a == 3 && reorgs:
			// the operator re-indexes a referenced integration: its positions and rows are removed
			var refsPairs []*Pair
			for _, p := range w.Pairs {
				if !isDep(p) && p.Start > 0 && w.Cursor(p).OK {
					refsPairs = append(refsPairs, p)
				}
			}
			if len(refsPairs) == 0 {
				p := m.pickPair("steppair")
				check(p, m.step(p))
				continue
			}
			rp := refsPairs[rapid.IntRange(0, len(refsPairs)-1).Draw(rt, "wiperef")]
			if err := w.db.Exec(fakepgDelCursor, rp.Src.Name, rp.Decl.Name, bigZero()); err != nil {
				rt.Fatalf("VERIF-INCONCLUSIVE wiping positions: %v", err)
			}
			if err := w.db.Exec(fmt.Sprintf("delete from %s where src_name = $1 and ig_name = $2 and block_num >= $3", rp.Decl.Table), rp.Src.Name, rp.Decl.Name, bigZero()); err != nil {
				rt.Fatalf("VERIF-INCONCLUSIVE wiping rows: %v", err)
			}
			m.logf("operator wipes %s to re-index it", rp.Key())
			m.label("ref-wiped")
			wiped = true
			// its dependants run before it has recorded anything again
			for _, p := range w.Pairs {
				if isDep(p) {
					for k := rapid.IntRange(1, 3).Draw(rt, "depsteps"); k > 0; k-- {
						check(p, m.step(p))
					}
				}
			}
		default:
			p := m.pickPair("steppair")
			check(p, m.step(p))
		}
	}
	if reorgs {
		// only the ordering invariant is claimed under reorgs: lookups made before
		// a reorg may have matched rows of blocks that were orphaned later
		ev.Case(behind, m.History(), "reorgs", fmt.Sprintf("refWiped=%v", wiped))
		return
	}
	for _, s := range w.Sources {
		m.grow(s, rapid.IntRange(0, 3).Draw(rt, "finalgrow"))
	}
	if msg := m.settle(len(m.decls)+3, check); msg != "" {
		if strings.HasPrefix(msg, "INCONCLUSIVE") {
			rt.Fatalf("VERIF-INCONCLUSIVE %s", msg)
		}
		fail("%s", msg)
	}
	// final: every pair complete; dependants' rows between the guaranteed and the possible lookups
	for _, p := range w.Pairs {
		cur := w.Cursor(p)
		if !cur.OK {
			continue
		}
		stored := storedStrings(p.Decl, w.TableRows(p))
		refs := refsOf(p.Decl)
		if len(refs) == 0 {
			if v := w.CheckPair(p); v != "" {
				fail("at quiescence: %s", v)
			}
			continue
		}
		tableOf := func(ig string) string {
			for _, d := range w.decls {
				if d.Name == ig {
					return d.Table
				}
			}
			return ""
		}
		// guaranteed: rows the referenced integration derived from blocks <= n of the same source
		lo := func(ref *refmodel.Ref, val []byte, n uint64) bool {
			for _, r := range pairRows(w.db.Rows(tableOf(ref.Integration)), p.Src.Name, ref.Integration) {
				if b, ok := r[ref.Column].([]byte); ok && string(b) == string(val) && numOf(r["block_num"]) <= n {
					return true
				}
			}
			return false
		}
		hi := func(ref *refmodel.Ref, val []byte, n uint64) bool {
			for _, r := range w.db.Rows(tableOf(ref.Integration)) {
				if b, ok := r[ref.Column].([]byte); ok && string(b) == string(val) {
					return true
				}
			}
			return false
		}
		rowsLo := rowStrings(p.Decl, w.ExpectedLookup(p, cur.Num, lo))
		rowsHi := rowStrings(p.Decl, w.ExpectedLookup(p, cur.Num, hi))
		must, may := rowsLo, rowsHi
		neg := false
		for _, f := range p.Decl.Filters {
			if f != nil && f.Ref != nil && f.Op == "!contains" {
				neg = true
			}
		}
		for _, b := range p.Decl.Block {
			if b.Filter != nil && b.Filter.Ref != nil && b.Filter.Op == "!contains" {
				neg = true
			}
		}
		if neg {
			must, may = rowsHi, rowsLo
		}
		if miss := subsetRows(must, stored); len(miss) > 0 {
			fail("%s: %d row(s) are missing although the referenced data for their block was complete, e.g. %.300s", p.Key(), len(miss), miss[0])
		}
		if extra := subsetRows(stored, may); len(extra) > 0 {
			fail("%s: %d row(s) stored that no lookup against the referenced table can justify, e.g. %.300s", p.Key(), len(extra), extra[0])
		}
		// dependants end where the slowest referenced integration ends
		want := p.Src.Node.Chain.Head().Num
		for _, rn := range refs {
			if rp := pairOf(p.Src.Name, rn); rp != nil {
				if rc := w.Cursor(rp); rc.OK && rc.Num < want {
					want = rc.Num
				}
			}
		}
		if p.Stop > 0 && p.Stop < want {
			want = p.Stop
		}
		if cur.Num != want {
			fail("at quiescence %s is at %d, expected %d (min of head/stop and referenced positions)", p.Key(), cur.Num, want)
		}
	}
	nontrivial := behind
	labels := []string{fmt.Sprintf("behind=%v", behind), fmt.Sprintf("notStarted=%v", notStarted)}
	for l := range m.labels {
		labels = append(labels, l)
	}
	nrefs := 0
	for _, d := range m.decls {
		if n := len(refsOf(d)); n > nrefs {
			nrefs = n
		}
	}
	labels = append(labels, fmt.Sprintf("maxrefs=%d", nrefs))
	ev.Case(nontrivial, m.History(), labels...)
	if nontrivial && ev.WantSample(3) {
		ev.Sample(3, map[string]any{"config": m.describeConfig(), "history": m.hist[1:min(len(m.hist), 14)]})
	}
}

func TestC05_Dependencies(t *testing.T) {
	ev := evid.For("C05", "Dependencies")
	rapid.Check(t, func(rt *rapid.T) { c05Property(rt, ev, false) })
}

// TestC05_DependenciesReorg: the ordering invariant with reorgs of the source
// (referenced positions move backwards).
func TestC05_DependenciesReorg(t *testing.T) {
	ev := evid.For("C05", "DependenciesReorg")
	rapid.Check(t, func(rt *rapid.T) { c05Property(rt, ev, true) })
}
