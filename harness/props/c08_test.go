package props

// C08 — source-side caches are transparent: same data, bounded reuse, no cached errors.

import (
	"context"
	"fmt"
	"net/http"
	"net/http/httptest"
	"strings"
	"sync"
	"testing"
	"time"

	"github.com/indexsupply/shovel/eth"
	"github.com/indexsupply/shovel/jrpc2"
	"github.com/indexsupply/shovel/shovel/glf"
	"nhooyr.io/websocket"
	"nhooyr.io/websocket/wsjson"
	"pgregory.net/rapid"

	"verifharness/evid"
	"verifharness/sim"
)

type c08Filter struct {
	name   string
	needs  []string
	addrs  []string
	topics [][]string
}

// filters that differ in plan and in what logs they ask for
func c08Filters() []c08Filter {
	sig := "0x" + fmt.Sprintf("%x", xferEvent().SigHash())
	return []c08Filter{
		{"headers", []string{"block_time"}, nil, nil},
		{"blocks", []string{"tx_input"}, nil, nil},
		{"logs+blocks all", []string{"log_idx", "tx_input"}, nil, nil},
		{"logs+blocks xfer", []string{"log_idx", "tx_input"}, nil, [][]string{{sig}}},
		{"logs+blocks addr77", []string{"log_idx", "tx_input"}, []string{"0x" + strings.Repeat("77", 20)}, nil},
		{"logs+blocks addr66", []string{"log_idx", "tx_input"}, []string{"0x" + strings.Repeat("66", 20)}, nil},
		{"logs+headers xfer", []string{"log_idx", "block_time"}, nil, [][]string{{sig}}},
		{"logs+headers addr66", []string{"log_idx", "block_time"}, []string{"0x" + strings.Repeat("66", 20)}, nil},
		{"receipts+blocks", []string{"tx_status", "tx_input"}, nil, nil},
		{"traces+blocks", []string{"trace_action_from", "tx_input"}, nil, nil},
	}
}

func (f c08Filter) glf() *glf.Filter { return glf.New(f.needs, f.addrs, f.topics) }

// matches: does a returned log match the caller's own filter?
func (f c08Filter) matches(l *eth.Log) bool {
	sl := sim.Log{Addr: l.Address}
	for _, t := range l.Topics {
		sl.Topics = append(sl.Topics, t)
	}
	return sim.LogMatches(&sl, f.addrs, f.topics)
}

type c08Env struct {
	node     *sim.Node
	url      string
	refURL   string
	cached   *jrpc2.Client
	ref      *jrpc2.Client
	mu       sync.Mutex
	failNth  map[int]bool // request sequence numbers (cached node only) to fail
	failKind int          // 0: HTTP 503; 1..: a response that fails the client's validation
	seq      int
	fetches  map[string]int // successful block/header fetches per "kind:start" seen by the node
}

func newC08Env(maxreads int) *c08Env {
	_, ns := env()
	e := &c08Env{failNth: map[int]bool{}, fetches: map[string]int{}}
	e.node = sim.NewNode(c07Chain().Clone())
	e.node.OnRequest = func(n *sim.Node, ri sim.ReqInfo) *sim.Fault {
		e.mu.Lock()
		defer e.mu.Unlock()
		i := e.seq
		e.seq++
		if e.failNth[i] {
			delete(e.failNth, i)
			switch {
			case e.failKind == 0 || (ri.Kind != "headers" && ri.Kind != "blocks"):
				return &sim.Fault{Status: 503}
			default:
				// served, but invalid: the client must reject it (and must not keep it)
				op := []string{"break-parent-hash", "renumber-block", "null-result", "drop-element"}[e.failKind%4]
				return &sim.Fault{Mutate: func(resp any) any {
					for _, o := range c07Ops {
						if o.name == op {
							if out, ok := o.apply(resp, e.failKind/4, e.failKind); ok {
								return out
							}
						}
					}
					return map[string]any{"jsonrpc": "2.0", "id": 1, "error": map[string]any{"code": -32000, "message": "injected"}}
				}}
			}
		}
		if ri.Kind == "headers" || ri.Kind == "blocks" {
			e.fetches[fmt.Sprintf("%s:%d:%d", ri.Kind, ri.From, ri.N)]++
		}
		return nil
	}
	e.url = ns.Attach(e.node, "")
	refNode := sim.NewNode(c07Chain().Clone())
	e.refURL = ns.Attach(refNode, "nocache")
	e.cached = jrpc2.New(e.url).WithMaxReads(maxreads).WithPollDuration(time.Hour)
	e.ref = jrpc2.New(e.refURL)
	return e
}

func (e *c08Env) close() {
	_, ns := env()
	ns.Detach(e.url)
	ns.Detach(e.refURL)
}

// TestC08_Sequences: sequential mixes of requests through one caching client.
func TestC08_Sequences(t *testing.T) {
	ev := evid.For("C08", "Sequences")
	filters := c08Filters()
	rapid.Check(t, func(rt *rapid.T) {
		maxreads := rapid.IntRange(1, 5).Draw(rt, "maxreads")
		e := newC08Env(maxreads)
		defer e.close()
		n := rapid.IntRange(2, 14).Draw(rt, "ncalls")
		type keyT struct {
			kind         string
			start, limit uint64
		}
		reads := map[keyT]int{}
		usedFilters := map[keyT]map[string]bool{}
		failed, shared := false, false
		var hist []string
		// a few ranges so that the same key recurs
		type rng struct{ start, limit uint64 }
		var ranges []rng
		for i := rapid.IntRange(1, 3).Draw(rt, "nranges"); i > 0; i-- {
			l := uint64(rapid.IntRange(1, 4).Draw(rt, "limit"))
			ranges = append(ranges, rng{uint64(rapid.IntRange(1, 11-int(l)).Draw(rt, "start")), l})
		}
		for i := 0; i < n; i++ {
			f := filters[rapid.IntRange(0, len(filters)-1).Draw(rt, "filter")]
			r := ranges[rapid.IntRange(0, len(ranges)-1).Draw(rt, "range")]
			gf := f.glf()
			kind := ""
			switch {
			case gf.UseBlocks:
				kind = "blocks"
			case gf.UseHeaders:
				kind = "headers"
			}
			k := keyT{kind, r.start, r.limit}
			inject := rapid.IntRange(0, 5).Draw(rt, "fail") == 0
			if inject {
				e.mu.Lock()
				e.failNth[e.seq+rapid.IntRange(0, 1).Draw(rt, "failwhich")] = true
				e.failKind = rapid.IntRange(0, 11).Draw(rt, "failkind")
				e.mu.Unlock()
			}
			e.mu.Lock()
			before := e.fetches[fmt.Sprintf("%s:%d:%d", kind, r.start, r.limit)]
			e.mu.Unlock()
			got, err := e.cached.Get(context.Background(), e.url, gf, r.start, r.limit)
			e.mu.Lock()
			after := e.fetches[fmt.Sprintf("%s:%d:%d", kind, r.start, r.limit)]
			e.failNth = map[int]bool{}
			e.mu.Unlock()
			hist = append(hist, fmt.Sprintf("Get(%s,%d,%d) fail=%v -> err=%v fetched=%v", f.name, r.start, r.limit, inject, err != nil, after > before))
			if err == nil && inject {
				// the injected corruption may have produced a response that differs from the
				// chain but passes validation (e.g. a broken parent link of a one-block
				// segment): whatever was stored is then not what an uncached client reads later.
				// Such a case says nothing about the cache: drop it.
				rt.Skip("injected corruption was not rejected by validation")
			}
			if err != nil {
				if !inject {
					rt.Fatalf("VERIF-VIOLATION property=C08 Get failed without an injected failure: %v\n %s", err, strings.Join(hist, "\n "))
				}
				failed = true
				// a failed fetch is never served from cache: the next read of this key must ask the source again
				if kind != "" && after == 0 && reads[k] == 0 {
					// the failure hit the block/header fetch itself: nothing may have been stored
					got2, err2 := e.cached.Get(context.Background(), e.url, gf, r.start, r.limit)
					e.mu.Lock()
					after2 := e.fetches[fmt.Sprintf("%s:%d:%d", kind, r.start, r.limit)]
					e.mu.Unlock()
					if err2 == nil && after2 == 0 {
						rt.Fatalf("VERIF-VIOLATION property=C08 after a failed fetch of (%s,%d,%d) the next read was answered without asking the source (%d blocks)\n %s", kind, r.start, r.limit, len(got2), strings.Join(hist, "\n "))
					}
					if err2 == nil {
						reads[k]++
					}
				}
				continue
			}
			want, rerr := e.ref.Get(context.Background(), e.refURL, gf, r.start, r.limit)
			if rerr != nil {
				rt.Fatalf("VERIF-INCONCLUSIVE reference client failed: %v", rerr)
			}
			// every reader gets a private copy of the cached segment (e724497): the result is
			// compared in full — blocks, transactions, every log, receipt field and trace
			gd, wd := blocksDigestPlan(got, nil, nil), blocksDigestPlan(want, nil, nil)
			if gd != wd {
				rt.Fatalf("VERIF-VIOLATION property=C08 cached client returned other data than an uncached client for Get(%s,%d,%d)\n got:  %.900s\n want: %.900s\n history:\n %s", f.name, r.start, r.limit, gd, wd, strings.Join(hist, "\n "))
			}
			if kind != "" {
				reads[k]++
				if usedFilters[k] == nil {
					usedFilters[k] = map[string]bool{}
				}
				usedFilters[k][f.name] = true
				if len(usedFilters[k]) > 1 {
					shared = true
				}
			}
		}
		// bounded reuse: R successful reads of a key need at least ceil(R/maxreads) fetches
		for k, r := range reads {
			e.mu.Lock()
			f := e.fetches[fmt.Sprintf("%s:%d:%d", k.kind, k.start, k.limit)]
			e.mu.Unlock()
			if r > maxreads*f {
				rt.Fatalf("VERIF-VIOLATION property=C08 segment (%s,%d,%d) served %d reads from %d fetch(es) with max reads %d\n %s", k.kind, k.start, k.limit, r, f, maxreads, strings.Join(hist, "\n "))
			}
		}
		ev.Case(shared || failed, strings.Join(hist, ";")+fmt.Sprint(maxreads), fmt.Sprintf("sharedSegmentDifferentFilters=%v", shared), fmt.Sprintf("failureInjected=%v", failed), fmt.Sprintf("maxreads=%d", maxreads))
		if shared && ev.WantSample(3) {
			ev.Sample(3, map[string]any{"maxreads": maxreads, "calls": hist})
		}
	})
}

// TestC08_Concurrent: concurrent mixes (transparency only).
func TestC08_Concurrent(t *testing.T) {
	ev := evid.For("C08", "Concurrent")
	filters := c08Filters()
	rapid.Check(t, func(rt *rapid.T) {
		maxreads := rapid.IntRange(1, 5).Draw(rt, "maxreads")
		e := newC08Env(maxreads)
		defer e.close()
		type call struct {
			f            c08Filter
			start, limit uint64
		}
		var calls []call
		l := uint64(rapid.IntRange(1, 4).Draw(rt, "limit"))
		s := uint64(rapid.IntRange(1, 11-int(l)).Draw(rt, "start"))
		for i := rapid.IntRange(2, 8).Draw(rt, "ncalls"); i > 0; i-- {
			c := call{f: filters[rapid.IntRange(0, len(filters)-1).Draw(rt, "filter")], start: s, limit: l}
			if rapid.IntRange(0, 3).Draw(rt, "other") == 0 {
				c.limit = uint64(rapid.IntRange(1, 3).Draw(rt, "limit2"))
				c.start = uint64(rapid.IntRange(1, 11-int(c.limit)).Draw(rt, "start2"))
			}
			calls = append(calls, c)
		}
		results := make([]string, len(calls))
		errs := make([]error, len(calls))
		var wg sync.WaitGroup
		for i, c := range calls {
			wg.Add(1)
			go func(i int, c call) {
				defer wg.Done()
				got, err := e.cached.Get(context.Background(), e.url, c.f.glf(), c.start, c.limit)
				errs[i] = err
				if err == nil {
					results[i] = blocksDigestPlan(got, nil, nil)
				}
			}(i, c)
		}
		wg.Wait()
		diff := 0
		names := map[string]bool{}
		for i, c := range calls {
			names[c.f.name] = true
			if errs[i] != nil {
				rt.Fatalf("VERIF-VIOLATION property=C08 concurrent Get(%s,%d,%d) failed: %v", c.f.name, c.start, c.limit, errs[i])
			}
			want, rerr := e.ref.Get(context.Background(), e.refURL, c.f.glf(), c.start, c.limit)
			if rerr != nil {
				rt.Fatalf("VERIF-INCONCLUSIVE reference client failed: %v", rerr)
			}
			if wd := blocksDigestPlan(want, nil, nil); wd != results[i] {
				rt.Fatalf("VERIF-VIOLATION property=C08 concurrent caller %d Get(%s,%d,%d) got other data than an uncached client\n got:  %.900s\n want: %.900s", i, c.f.name, c.start, c.limit, results[i], wd)
			}
			if c.start != s || c.limit != l {
				diff++
			}
		}
		ev.Case(len(names) > 1, fmt.Sprint(calls), fmt.Sprintf("distinctFilters=%d", min(len(names), 4)), fmt.Sprintf("callers=%d", len(calls)))
		if len(names) > 1 && ev.WantSample(2) {
			var cs []string
			for _, c := range calls {
				cs = append(cs, fmt.Sprintf("%s[%d,+%d]", c.f.name, c.start, c.limit))
			}
			ev.Sample(2, cs)
		}
	})
}

// TestC08_Head: the head cache against scripted announcements.
func TestC08_Head(t *testing.T) {
	ev := evid.For("C08", "Head")
	_, ns := env()
	rapid.Check(t, func(rt *rapid.T) {
		maxreads := rapid.IntRange(1, 5).Draw(rt, "maxreads")
		// how the head cache is fed besides the callers' own fetches: not at all, by the
		// 1 ms HTTP poller, or by a newHeads subscription over a web socket
		mode := rapid.SampledFrom([]string{"none", "http-poll", "http-poll", "ws"}).Draw(rt, "feeder")
		poll := mode != "none"
		// announcement script: (number, hash) pairs, repeats and regressions included
		type ann struct {
			num  uint64
			hash string
		}
		var script []ann
		cur := uint64(rapid.IntRange(5, 50).Draw(rt, "first"))
		for i := rapid.IntRange(3, 25).Draw(rt, "nann"); i > 0; i-- {
			switch rapid.IntRange(0, 5).Draw(rt, "move") {
			case 0: // repeat
			case 1: // regression
				if cur > 3 {
					cur -= uint64(rapid.IntRange(1, 3).Draw(rt, "back"))
				}
			default:
				cur += uint64(rapid.IntRange(1, 3).Draw(rt, "fwd"))
			}
			script = append(script, ann{cur, fmt.Sprintf("0x%064x", uint64(len(script)+1)<<32|cur)})
		}
		var mu sync.Mutex
		pos, served, failNext := 0, map[string]bool{}, false
		latestReqs := 0
		node := sim.NewNode(c07Chain().Clone())
		node.OnRequest = func(n *sim.Node, ri sim.ReqInfo) *sim.Fault {
			if ri.Kind != "latest" {
				return nil
			}
			mu.Lock()
			defer mu.Unlock()
			latestReqs++
			if failNext {
				failNext = false
				return &sim.Fault{Status: 502}
			}
			a := script[min(pos, len(script)-1)]
			if pos < len(script)-1 {
				pos++
			}
			served[fmt.Sprintf("%d/%s", a.num, a.hash)] = true
			return &sim.Fault{Mutate: func(resp any) any {
				m, _ := resp.(map[string]any)
				r, _ := m["result"].(map[string]any)
				r["number"] = fmt.Sprintf("0x%x", a.num)
				r["hash"] = a.hash
				return m
			}}
		}
		url := ns.Attach(node, "")
		defer ns.Detach(url)
		pd := time.Hour
		if mode == "http-poll" {
			pd = time.Millisecond
		}
		c := jrpc2.New(url).WithMaxReads(maxreads).WithPollDuration(pd)
		if mode == "ws" {
			stopWS := make(chan struct{})
			defer close(stopWS)
			srv := httptest.NewServer(http.HandlerFunc(func(w http.ResponseWriter, r *http.Request) {
				wc, err := websocket.Accept(w, r, nil)
				if err != nil {
					return
				}
				defer wc.Close(websocket.StatusNormalClosure, "")
				ctx := r.Context()
				var req map[string]any
				if err := wsjson.Read(ctx, wc, &req); err != nil {
					return
				}
				if err := wsjson.Write(ctx, wc, map[string]any{"jsonrpc": "2.0", "id": req["id"], "result": "0x5ub"}); err != nil {
					return
				}
				for {
					select {
					case <-stopWS:
						return
					case <-time.After(time.Millisecond):
					}
					mu.Lock()
					a := script[min(pos, len(script)-1)]
					if pos < len(script)-1 {
						pos++
					}
					served[fmt.Sprintf("%d/%s", a.num, a.hash)] = true
					mu.Unlock()
					msg := map[string]any{"jsonrpc": "2.0", "method": "eth_subscription", "params": map[string]any{"subscription": "0x5ub",
						"result": map[string]any{"number": fmt.Sprintf("0x%x", a.num), "hash": a.hash, "parentHash": "0x" + strings.Repeat("00", 32)}}}
					if err := wsjson.Write(ctx, wc, msg); err != nil {
						return
					}
				}
			}))
			defer srv.Close()
			c = c.WithWSURL("ws" + strings.TrimPrefix(srv.URL, "http"))
		}
		regress := false
		for i := 1; i < len(script); i++ {
			if script[i].num < script[i-1].num {
				regress = true
			}
		}
		type held struct {
			num  uint64
			hash []byte
			text string
		}
		var holds []held
		hits := 0 // successive reads answered without a request (only meaningful without the poller)
		var hist []string
		floor := uint64(0)
		for i := rapid.IntRange(3, 30).Draw(rt, "ncalls"); i > 0; i-- {
			n := floor
			if rapid.IntRange(0, 4).Draw(rt, "nzero") == 0 {
				n = 0
			}
			inject := rapid.IntRange(0, 7).Draw(rt, "fail") == 0
			mu.Lock()
			if inject {
				failNext = true
			}
			before := latestReqs
			mu.Unlock()
			num, hash, err := c.Latest(context.Background(), url, n)
			mu.Lock()
			after := latestReqs
			failNext = false
			ok := served[fmt.Sprintf("%d/0x%x", num, hash)]
			mu.Unlock()
			hist = append(hist, fmt.Sprintf("Latest(%d) fail=%v -> %d err=%v asked=%v", n, inject, num, err != nil, after > before))
			if err != nil {
				if !inject && !poll {
					rt.Fatalf("VERIF-VIOLATION property=C08 Latest failed without an injected failure: %v\n %s", err, strings.Join(hist, "\n "))
				}
				hits = 0
				continue
			}
			if !ok {
				rt.Fatalf("VERIF-VIOLATION property=C08 Latest reported (%d, %x), a pair the source never announced\n %s", num, hash, strings.Join(hist, "\n "))
			}
			holds = append(holds, held{num, hash, fmt.Sprintf("%x", hash)})
			for _, h := range holds {
				if fmt.Sprintf("%x", h.hash) != h.text {
					rt.Fatalf("VERIF-VIOLATION property=C08 the hash reported earlier for head %d changed from %s to %x while the caller held it (pair never announced)\n %s", h.num, h.text, h.hash, strings.Join(hist, "\n "))
				}
			}
			if !poll {
				if after == before {
					// answered from the cache
					hits++
					if n == 0 {
						rt.Fatalf("VERIF-VIOLATION property=C08 Latest(0) must always ask the source but was answered from the cache\n %s", strings.Join(hist, "\n "))
					}
					if num < n {
						rt.Fatalf("VERIF-VIOLATION property=C08 Latest(%d) returned the cached head %d below the caller's floor\n %s", n, num, strings.Join(hist, "\n "))
					}
					if hits > maxreads {
						rt.Fatalf("VERIF-VIOLATION property=C08 the cached head served %d successive reads, max reads is %d\n %s", hits, maxreads, strings.Join(hist, "\n "))
					}
				} else {
					hits = 0
				}
			}
			if rapid.Bool().Draw(rt, "advance") && num > floor {
				floor = num
			}
			if poll {
				time.Sleep(time.Duration(rapid.IntRange(0, 2).Draw(rt, "sleepms")) * time.Millisecond)
			}
		}
		ev.Case(regress, strings.Join(hist, ";"), "feeder="+mode, fmt.Sprintf("regression=%v", regress), fmt.Sprintf("maxreads=%d", maxreads))
		if regress && ev.WantSample(2) {
			ev.Sample(2, map[string]any{"announcements": fmt.Sprint(script), "calls": hist})
		}
	})
}
