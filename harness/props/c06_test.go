package props

// C06 — start, stop and resume: only blocks inside the configured range are written.

import (
	"fmt"
	"testing"

	"pgregory.net/rapid"

	"verifharness/evid"
	"verifharness/fakepg"
	"verifharness/sim"
)

// rangeViolation checks rows and positions written by commits against [lo, hi].
func rangeViolation(p *Pair, cs []*fakepg.Commit, lo, hi uint64) string {
	for _, c := range cs {
		for _, a := range c.Added {
			if a.Row["src_name"] != p.Src.Name || a.Row["ig_name"] != p.Decl.Name {
				continue
			}
			var n uint64
			what := "row"
			if a.Table == "shovel.task_updates" {
				n, what = numOf(a.Row["num"]), "position"
			} else {
				n = numOf(a.Row["block_num"])
			}
			if n < lo {
				return fmt.Sprintf("%s for block %d written, before the first block of the range (%d)", what, n, lo)
			}
			if hi > 0 && n > hi {
				return fmt.Sprintf("%s for block %d written, after the configured stop (%d)", what, n, hi)
			}
		}
	}
	return ""
}

func c06Property(rt *rapid.T, ev *evid.Rec, deps bool) {
	o := machineOpts{MaxDecls: 2, Kinds: []string{"log", "tx"}, MaxBatch: 8, MaxConc: 3, InitBlocks: [2]int{2, 9},
		Starts: []string{"zero", "one", "mid", "mid", "above"}, Stops: true}
	if deps {
		// integrations with filter references: the dependency position caps the target as well
		o.CustomDecls = c05Decls
		o.Starts = []string{"one", "mid", "mid"}
	}
	m := newMachine(rt, o)
	defer m.Close()
	w := m.w
	fail := func(f string, a ...any) {
		rt.Fatalf("VERIF-VIOLATION property=C06 %s\n history:\n   %s", fmt.Sprintf(f, a...), m.History())
	}
	straddle, aboveHead, resumed, midGrowth, commitFault := false, false, false, false, false
	doneSeen := map[string]bool{}
	restartedSince := map[string]bool{}
	check := func(p *Pair, r StepResult) {
		if r.Panic != nil {
			fail("Converge panicked: %v", r.Panic)
		}
		out := r.Outcome()
		// completion: done iff a stop is configured and the recorded position reached it
		atStop := p.Stop > 0 && r.Before.OK && r.Before.Num >= p.Stop
		if p.Stop > 0 && !r.Before.OK && p.Start > 0 && p.Start-1 >= p.Stop {
			atStop = true
		}
		if out == "done" && !atStop && !(p.Stop > 0 && !r.Before.OK && p.Start == 0) {
			fail("%s reported completion at position %s with stop %d", p.Key(), curStr(r.Before), p.Stop)
		}
		if atStop && out != "done" && out != "error" {
			fail("%s is at %s with stop %d but the step reported %q instead of completion", p.Key(), curStr(r.Before), p.Stop, out)
		}
		if out == "done" {
			doneSeen[p.Key()] = true
		}
		if doneSeen[p.Key()] && len(r.Commits) > 0 {
			fail("%s wrote to the database after reporting completion", p.Key())
		}
		// range
		lo := p.Start
		if p.Start == 0 && p.FirstSet {
			lo = p.First
		}
		if v := rangeViolation(p, r.Commits, lo, p.Stop); v != "" {
			fail("%s: %s", p.Key(), v)
		}
		dependant := len(refsOf(p.Decl)) > 0
		if v := checkStepC01(m, p, r); v != "" {
			fail("%s", v)
		}
		if r.Err == nil {
			// resume: a recorded position is always continued, never restarted from start/head
			if r.Before.OK && restartedSince[p.Key()] {
				resumed = true
			}
			restartedSince[p.Key()] = false
			if p.Stop > 0 && r.After.Num == p.Stop && uint64(p.Src.Batch) > 1 {
				prev := lo - 1
				if r.Before.OK {
					prev = r.Before.Num
				}
				if prev+uint64(p.Src.Batch) > p.Stop && p.Src.Node.Chain.Head().Num > p.Stop {
					straddle = true
				}
			}
			if !dependant {
				if v := w.CheckPair(p); v != "" {
					fail("after a successful step: %s", v)
				}
			}
		}
		if p.Start > 0 && !r.Before.OK && len(r.Heads) == 0 && r.Err != nil {
			aboveHead = true
		}
	}
	nact := drawActions(rt, 3, 16, 40)
	for i := 0; i < nact; i++ {
		switch rapid.IntRange(0, 9).Draw(rt, "action") {
		case 0, 1, 2:
			m.grow(m.pickSource("growsrc"), rapid.IntRange(1, 6).Draw(rt, "grown"))
		case 3:
			m.reconfigure()
			if err := w.Restart(); err != nil {
				rt.Fatalf("VERIF-INCONCLUSIVE restart: %v", err)
			}
			m.logf("restart")
			for _, p := range w.Pairs {
				restartedSince[p.Key()] = true
			}
		case 5:
			// a COMMIT of the step fails (serialization failure / dropped connection): nothing of the
			// step is recorded, and the next step of the same task resumes from the recorded position
			p := m.pickPair("steppair")
			k, kind, seen := rapid.IntRange(1, 2).Draw(rt, "failcommit"), rapid.SampledFrom([]fakepg.FaultKind{fakepg.ErrReply, fakepg.DropBefore}).Draw(rt, "commitfault"), 0
			w.db.Fault = func(op fakepg.Op) fakepg.Fault {
				if op.Kind == fakepg.OpCommit {
					if seen++; seen == k {
						commitFault = true
						return fakepg.Fault{Kind: kind, Code: "40001"}
					}
				}
				return fakepg.Fault{}
			}
			r := m.step(p)
			w.db.Fault = nil
			m.logf("  (commit #%d of that step was made to fail: %v)", k, seen >= k)
			check(p, r)
			check(p, m.step(p))
		case 4:
			// blocks arrive while the step is under way (between two of its requests)
			p := m.pickPair("steppair")
			if p.Start == 0 {
				check(p, m.step(p))
				continue
			}
			k, seen := rapid.IntRange(1, 4).Draw(rt, "growatrequest"), 0
			var txs [][]sim.Tx
			for j := rapid.IntRange(1, 2).Draw(rt, "midgrown"); j > 0; j-- {
				txs = append(txs, genTxs(rt, m))
			}
			src := p.Src
			w.SetHook(func(s *SourceCfg, n *sim.Node, ri sim.ReqInfo) *sim.Fault {
				if s != src {
					return nil
				}
				if seen++; seen == k {
					for _, t := range txs {
						n.Chain.Append(t) // (the node is locked while it answers)
					}
					m.logf("  +%d blocks on %s while answering request %d (%s) -> head %d", len(txs), s.Name, k, ri.Kind, n.Chain.Head().Num)
					midGrowth = true
				}
				return nil
			})
			r := m.step(p)
			w.SetHook(nil)
			check(p, r)
		default:
			p := m.pickPair("steppair")
			check(p, m.step(p))
		}
	}
	// let the head pass every stop and start
	for _, s := range w.Sources {
		m.grow(s, rapid.IntRange(1, 14).Draw(rt, "finalgrow"))
	}
	if msg := m.settle(len(m.decls)+3, check); msg != "" {
		if len(msg) > 12 && msg[:12] == "INCONCLUSIVE" {
			rt.Fatalf("VERIF-INCONCLUSIVE %s", msg)
		}
		fail("%s", msg)
	}
	for _, p := range w.Pairs {
		cur := w.Cursor(p)
		head := p.Src.Node.Chain.Head().Num
		if deps && len(refsOf(p.Decl)) > 0 {
			// a dependant ends where the slowest referenced integration ends; only the range is claimed here
			if cur.OK && p.Stop > 0 && cur.Num > p.Stop {
				fail("at quiescence %s is at %d beyond its stop %d", p.Key(), cur.Num, p.Stop)
			}
			continue
		}
		switch {
		case p.Start > head+1:
			if cur.OK {
				fail("%s starts at %d above the head %d but recorded position %s", p.Key(), p.Start, head, curStr(cur))
			}
			aboveHead = true
		case p.Stop > 0 && p.Stop <= head && !(p.Start == 0 && !p.FirstSet):
			if p.Start > 0 && p.Start-1 >= p.Stop {
				break
			}
			if !cur.OK || cur.Num != p.Stop {
				fail("at quiescence %s is at %s, stop is %d (head %d)", p.Key(), curStr(cur), p.Stop, head)
			}
			r := m.step(p)
			if r.Outcome() != "done" || len(r.Commits) > 0 {
				fail("%s reached its stop %d but a further step reported %q with %d commits", p.Key(), p.Stop, r.Outcome(), len(r.Commits))
			}
		case p.Start <= head:
			if p.Stop == 0 && (!cur.OK || cur.Num != head) {
				fail("at quiescence %s is at %s, head is %d", p.Key(), curStr(cur), head)
			}
		}
		if len(refsOf(p.Decl)) == 0 {
			if v := w.CheckPair(p); v != "" {
				fail("at quiescence: %s", v)
			}
		}
		// table min/max
		for _, r := range w.TableRows(p) {
			bn := numOf(r["block_num"])
			lo := p.Start
			if p.Start == 0 {
				lo = p.First
			}
			if bn < lo || (p.Stop > 0 && bn > p.Stop) {
				fail("%s: table holds a row of block %d outside [%d, %d]", p.Key(), bn, lo, p.Stop)
			}
		}
	}
	nontrivial := straddle || aboveHead || resumed
	labels := []string{fmt.Sprintf("straddle=%v", straddle), fmt.Sprintf("aboveHead=%v", aboveHead), fmt.Sprintf("resumed=%v", resumed), fmt.Sprintf("grewMidStep=%v", midGrowth), fmt.Sprintf("commitFailed=%v", commitFault)}
	for l := range m.labels {
		labels = append(labels, l)
	}
	ev.Case(nontrivial, m.History(), labels...)
	if nontrivial && ev.WantSample(3) {
		ev.Sample(3, map[string]any{"config": m.describeConfig(), "history": m.hist[1:min(len(m.hist), 14)]})
	}
}

func TestC06_Range(t *testing.T) {
	ev := evid.For("C06", "Range")
	rapid.Check(t, func(rt *rapid.T) { c06Property(rt, ev, false) })
}

// TestC06_RangeWithReferences: the same range rules for integrations whose
// target is also capped by the integrations they reference.
func TestC06_RangeWithReferences(t *testing.T) {
	ev := evid.For("C06", "RangeWithReferences")
	rapid.Check(t, func(rt *rapid.T) { c06Property(rt, ev, true) })
}
