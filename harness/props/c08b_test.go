package props

// C08 — reuse bound with readers that arrive while the download is under way.

import (
	"context"
	"fmt"
	"sync"
	"testing"
	"time"

	"pgregory.net/rapid"

	"verifharness/evid"
	"verifharness/sim"
)

// TestC08_InFlightReads: the first caller's download is held inside the node; W more callers
// ask for the same segment meanwhile (they wait for it), then the download is let go. Every one of
// these 1+W answers is a read of that one download. After maxreads-1-W further reads the next one
// must go to the source again. The count is the same whether or not the W callers really overlapped
// the download (if they came late they are ordinary cache reads), so the schedule only decides
// how sharp the case is, never its verdict.
func TestC08_InFlightReads(t *testing.T) {
	ev := evid.For("C08", "InFlightReads")
	filters := c08Filters()[:2] // headers / blocks: one request per download
	rapid.Check(t, func(rt *rapid.T) {
		maxreads := rapid.IntRange(1, 5).Draw(rt, "maxreads")
		// (with max reads 1 a single late-comer: two of them could meet on the segment the first of
		// them has just created, between its lookup and its lock, and share that download — the
		// unmodified client allows that, see DESIGN §13)
		waiters := 1
		if maxreads > 2 {
			waiters = rapid.IntRange(1, maxreads-1).Draw(rt, "waiters")
		}
		f := filters[rapid.IntRange(0, len(filters)-1).Draw(rt, "filter")]
		limit := uint64(rapid.IntRange(1, 4).Draw(rt, "limit"))
		start := uint64(rapid.IntRange(1, 11-int(limit)).Draw(rt, "start"))
		e := newC08Env(maxreads)
		defer e.close()
		held, release := make(chan struct{}, 1), make(chan struct{})
		var once sync.Once
		inner := e.node.OnRequest
		e.node.OnRequest = func(n *sim.Node, ri sim.ReqInfo) *sim.Fault {
			if ri.Kind == "headers" || ri.Kind == "blocks" {
				once.Do(func() {
					held <- struct{}{}
					<-release
				})
			}
			return inner(n, ri)
		}
		get := func() error {
			_, err := e.cached.Get(context.Background(), e.url, f.glf(), start, limit)
			return err
		}
		errs := make(chan error, 1+waiters)
		go func() { errs <- get() }()
		select {
		case <-held:
		case <-time.After(5 * time.Second):
			close(release)
			rt.Fatalf("VERIF-INCONCLUSIVE the first download never reached the node")
		}
		for i := 0; i < waiters; i++ {
			go func() { errs <- get() }()
		}
		time.Sleep(time.Duration(2+waiters) * time.Millisecond) // (lets them reach the segment; not needed for the verdict)
		close(release)
		for i := 0; i < 1+waiters; i++ {
			if err := <-errs; err != nil {
				rt.Fatalf("VERIF-VIOLATION property=C08 Get(%s,%d,%d) failed: %v", f.name, start, limit, err)
			}
		}
		downloads := func() int {
			e.mu.Lock()
			defer e.mu.Unlock()
			n := 0
			for k, v := range e.fetches {
				if k == fmt.Sprintf("%s:%d:%d", map[string]string{"headers": "headers", "blocks": "blocks"}[f.name], start, limit) {
					n += v
				}
			}
			return n
		}
		if maxreads == 1 {
			// every answer is the one read its download allows: each caller, early or late, goes to the source
			ev.Case(true, fmt.Sprint(maxreads, waiters, f.name, start, limit), fmt.Sprintf("waiters=%d", waiters), "maxreads=1")
			if d := downloads(); d != 1+waiters {
				rt.Fatalf("VERIF-VIOLATION property=C08 max-reads=1: %d callers of Get(%s,%d,%d), %d of them arriving while the first download was under way, were served by %d downloads", 1+waiters, f.name, start, limit, waiters, d)
			}
			return
		}
		if d := downloads(); d < 1 || d > 1+waiters {
			rt.Fatalf("VERIF-VIOLATION property=C08 %d callers of Get(%s,%d,%d) caused %d downloads", 1+waiters, f.name, start, limit, d)
		}
		first := downloads()
		reads := 1 + waiters
		if first > 1 {
			// the callers did not share one download (each went to the source): nothing to bound here
			ev.Case(false, fmt.Sprint(maxreads, waiters, f.name, start, limit), "shared=false")
			return
		}
		for ; reads < maxreads; reads++ {
			if err := get(); err != nil {
				rt.Fatalf("VERIF-VIOLATION property=C08 Get failed: %v", err)
			}
			if d := downloads(); d != 1 {
				// allowed: fewer reads than max-reads per download is not forbidden by the statement
				ev.Case(false, fmt.Sprint(maxreads, waiters, f.name, start, limit), "early-refetch")
				return
			}
		}
		if err := get(); err != nil {
			rt.Fatalf("VERIF-VIOLATION property=C08 Get failed: %v", err)
		}
		if d := downloads(); d != 2 {
			rt.Fatalf("VERIF-VIOLATION property=C08 max-reads=%d: one download of %s[%d,+%d] served %d reads (%d of them by callers that arrived while it was under way); read %d came from the cache again (%d downloads)", maxreads, f.name, start, limit, reads, waiters, reads+1, d)
		}
		ev.Case(true, fmt.Sprint(maxreads, waiters, f.name, start, limit), fmt.Sprintf("waiters=%d", waiters), fmt.Sprintf("maxreads=%d", maxreads))
		if ev.WantSample(3) {
			ev.Sample(3, map[string]any{"maxreads": maxreads, "callers_during_download": waiters, "plan": f.name, "start": start, "limit": limit})
		}
	})
}
