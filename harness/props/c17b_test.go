package props

// C17 — decoded values stay what they were decoded as.

import (
	"bytes"
	"encoding/hex"
	"fmt"
	"testing"

	"github.com/indexsupply/shovel/eth"
	"pgregory.net/rapid"

	"verifharness/evid"
)

// TestC17_Aliasing: several byte-string destinations are filled, refilled (shorter, longer) and
// written in any order, from message buffers that are reused for the next message as a pooled
// reader does. Model: a map destination -> last value. After every operation every destination
// equals its model value (a decode neither borrows the message buffer nor spills into a
// neighbour), and the message buffer holds what it held before the decode.
func TestC17_Aliasing(t *testing.T) {
	ev := evid.For("C17", "Aliasing")
	rapid.Check(t, func(rt *rapid.T) {
		nd := rapid.IntRange(2, 6).Draw(rt, "ndest")
		dests := make([]eth.Bytes, nd)
		model := make([][]byte, nd)
		set := make([]bool, nd)
		// one message buffer, reused for every message (as a pooled websocket / bufio reader does)
		msg := make([]byte, 0, 4096)
		var hist []string
		grew, reusedBuf := false, false
		nops := rapid.IntRange(3, 24).Draw(rt, "nops")
		for op := 0; op < nops; op++ {
			i := rapid.IntRange(0, nd-1).Draw(rt, "dest")
			ln := rapid.SampledFrom([]int{0, 1, 4, 20, 32, 33, 64, 100}).Draw(rt, "len")
			val := rapid.SliceOfN(rapid.Byte(), ln, ln).Draw(rt, "val")
			switch rapid.IntRange(0, 3).Draw(rt, "how") {
			case 0:
				dests[i].Write(val)
				hist = append(hist, fmt.Sprintf("d%d.Write(%d bytes)", i, ln))
			default:
				// the value arrives inside a larger message: `{"hash":"0x..","x":"0x.."}`
				pre := rapid.SampledFrom([]string{``, `{"hash":`, `[`}).Draw(rt, "pre")
				post := rapid.SampledFrom([]string{``, `,"x":"0xffffffffffffffffffffffffffffffffffffffffffffffffffffffffffffffffffff"}`, `]`}).Draw(rt, "post")
				msg = msg[:0]
				msg = append(msg, pre...)
				tokAt := len(msg)
				msg = append(msg, `"0x`...)
				msg = append(msg, hex.EncodeToString(val)...)
				msg = append(msg, '"')
				tokEnd := len(msg)
				msg = append(msg, post...)
				before := append([]byte{}, msg...)
				var err error
				if p := catch(func() { err = dests[i].UnmarshalJSON(msg[tokAt:tokEnd]) }); p != nil {
					rt.Fatalf("VERIF-VIOLATION property=C17 Bytes.UnmarshalJSON panicked: %v\n history=%v", p, hist)
				}
				if err != nil {
					rt.Fatalf("VERIF-VIOLATION property=C17 Bytes.UnmarshalJSON refused a well-formed byte string of %d bytes: %v\n history=%v", ln, err, hist)
				}
				if !bytes.Equal(msg, before) {
					rt.Fatalf("VERIF-VIOLATION property=C17 decoding a byte string changed the message it was read from\n before: %s\n after:  %s\n history=%v", before, msg, hist)
				}
				hist = append(hist, fmt.Sprintf("d%d<-json(%d bytes)", i, ln))
				// the reader takes its buffer back for the next message
				if rapid.Bool().Draw(rt, "scribble") {
					for k := range msg[:cap(msg)][:min(cap(msg), len(msg)+64)] {
						msg[:cap(msg)][k] = 'Z'
					}
					reusedBuf = true
					hist = append(hist, "buffer reused")
				}
			}
			if set[i] && len(val) > len(model[i]) {
				grew = true
			}
			model[i], set[i] = val, true
			for j := range dests {
				if set[j] && !bytes.Equal(dests[j], model[j]) {
					rt.Fatalf("VERIF-VIOLATION property=C17 destination %d holds %x, it was last given %x (after operation %d on destination %d)\n history=%v", j, []byte(dests[j]), model[j], op, i, hist)
				}
			}
		}
		ev.Case(grew || reusedBuf, fmt.Sprint(hist), fmt.Sprintf("grewInPlace=%v", grew), fmt.Sprintf("bufferReused=%v", reusedBuf))
		if grew && reusedBuf && ev.WantSample(3) {
			ev.Sample(3, hist)
		}
	})
}
