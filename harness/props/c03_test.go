package props

// C03 — after a reorg the table converges to the canonical chain; orphaned rows vanish.

import (
	"context"
	"fmt"
	"math/big"
	"strings"
	"testing"

	"github.com/indexsupply/shovel/shovel"
	"pgregory.net/rapid"

	"verifharness/evid"
	"verifharness/gen"
	"verifharness/refmodel"
	"verifharness/sim"
)

// lowestCursor: the oldest retained position of any pair on source s (or 0).
func (m *machine) lowestCursor(s *SourceCfg) (uint64, bool) {
	rows := m.w.db.Rows("shovel.task_updates")
	var low uint64
	found := false
	for _, p := range m.w.Pairs {
		if p.Src != s {
			continue
		}
		has := false
		var plow uint64
		for _, r := range rows {
			if r["src_name"] == s.Name && r["ig_name"] == p.Decl.Name {
				n := numOf(r["num"])
				if !has || n < plow {
					plow, has = n, true
				}
			}
		}
		if !has {
			if p.Start == 0 {
				// a pair that starts at the head has no position history yet: any
				// reorg now would reach below it (outside the property's domain)
				return 0, false
			}
			continue
		}
		if !found || plow > low {
			// the fork must be above the oldest position of EVERY pair: take the max of the minima
			low = plow
		}
		found = true
	}
	return low, found
}

// safeFloor per pair: rows of blocks <= floor must never be removed or rewritten.
type c03State struct {
	floor         map[string]uint64
	hasFloor      map[string]bool
	maxEver       map[string]uint64 // highest position ever recorded per source
	orphanRows    bool              // an orphaned block had produced rows
	deep          bool              // reorg deeper than one block
	midStep       bool
	reorgs        int
	touchedOthers bool
	deletions     map[string]bool
}

func (m *machine) doReorg(st *c03State, s *SourceCfg, fork uint64, contents [][]sim.Tx, mid bool) {
	// called with the node lock held when mid==true (from the request hook)
	if !mid {
		s.Node.Lock()
		defer s.Node.Unlock()
	}
	c := s.Node.Chain
	oldHead := c.Head().Num
	newLen := len(contents)
	// bookkeeping before the chain changes
	curs := m.w.db.Rows("shovel.task_updates")
	for _, p := range m.w.Pairs {
		if p.Src != s {
			continue
		}
		// largest recorded position below the fork: still canonical afterwards
		var best uint64
		has := false
		for _, r := range curs {
			if r["src_name"] == s.Name && r["ig_name"] == p.Decl.Name {
				n := numOf(r["num"])
				h, _ := r["hash"].([]byte)
				// only a position that is canonical now stays canonical after a reorg above it
				if b := c.At(n); n < fork && b != nil && string(b.Hash) == string(h) && (!has || n > best) {
					best, has = n, true
				}
			}
		}
		if has {
			if !st.hasFloor[p.Key()] || best < st.floor[p.Key()] {
				st.floor[p.Key()], st.hasFloor[p.Key()] = best, true
			}
		}
		for _, r := range pairRows(m.w.db.Rows(p.Decl.Table), s.Name, p.Decl.Name) {
			if numOf(r["block_num"]) >= fork {
				st.orphanRows = true
			}
		}
	}
	c.Reorg(fork, contents)
	st.reorgs++
	if oldHead-fork+1 > 1 {
		st.deep = true
	}
	if mid {
		st.midStep = true
	}
	m.logf("reorg %s fork=%d oldhead=%d newlen=%d mid=%v -> head %d", s.Name, fork, oldHead, newLen, mid, c.Head().Num)
}

func c03Property(rt *rapid.T, ev *evid.Rec, o machineOpts) { reorgProperty(rt, ev, o, "C03") }

// reorgProperty is shared by C03 (convergence after reorgs) and C04 (the same
// histories over configurations that share tables, sources and caches, plus the
// frame condition on every commit).
func reorgProperty(rt *rapid.T, ev *evid.Rec, o machineOpts, prop string) {
	o.NeedParent = true
	o.Starts = []string{"one", "mid", "zero"}
	m := newMachine(rt, o)
	defer m.Close()
	w := m.w
	st := &c03State{floor: map[string]uint64{}, hasFloor: map[string]bool{}, maxEver: map[string]uint64{}, deletions: map[string]bool{}}
	fail := func(f string, a ...any) {
		rt.Fatalf("VERIF-VIOLATION property=%s %s\n history:\n   %s", prop, fmt.Sprintf(f, a...), m.History())
	}
	type pend struct {
		kind   string // request kind that triggers it ("" = k-th request)
		k      int
		depth  int
		newLen int
		txs    [][]sim.Tx
		nth    int // fire on the nth matching request
		seen   int
		fired  bool
		inBatch bool // the reorg lands while the node is answering the batch (before its last element)
	}
	var pending *pend
	w.SetHook(func(s *SourceCfg, n *sim.Node, ri sim.ReqInfo) *sim.Fault {
		p := pending
		if p == nil || p.fired {
			return nil
		}
		match := false
		if p.kind == "" {
			p.seen++
			match = p.seen == p.k
		} else if ri.Kind == p.kind {
			p.seen++
			match = p.seen == p.nth
		}
		if !match {
			return nil
		}
		p.fired = true
		land := func() {
			low, ok := m.lowestCursor(s)
			head := n.Chain.Head().Num
			if !ok || head <= low+1 {
				return
			}
			depth := min(p.depth, int(head-low-1))
			if depth < 1 {
				return
			}
			m.doReorg(st, s, head-uint64(depth)+1, p.txs, true)
		}
		if p.inBatch && ri.N >= 2 && (ri.Kind == "headers" || ri.Kind == "blocks") {
			last := ri.N - 1
			return &sim.Fault{Between: func(i int) {
				if i == last {
					m.logf("  (the reorg lands while the node answers the %s batch: its last element comes from the new chain)", ri.Kind)
					m.label("reorg-in-batch")
					land()
				}
			}}
		}
		land()
		return nil
	})
	// (The per-commit Auditor of C01/C02 is not used here: a reorg landing between
	// two RPC calls of a step legitimately produces rows that mix two versions of a
	// block until the next step unwinds them; the claim of C03/C04 is about quiescence.)
	// Before every step: the highest recorded position of the pair whose hash is
	// the canonical one at its height. An unwind walks down the recorded positions
	// and must stop there, so if that block is still canonical when the step ends
	// (no reorg reached it meanwhile), no row at or below it may have been touched.
	type anchor struct {
		ok   bool
		num  uint64
		hash string
	}
	anchors := map[string]anchor{}
	m.beforeStep = func(p *Pair) {
		a := anchor{}
		p.Src.Node.Lock()
		for _, r := range w.db.Rows("shovel.task_updates") {
			if r["src_name"] == p.Src.Name && r["ig_name"] == p.Decl.Name {
				n := numOf(r["num"])
				h, _ := r["hash"].([]byte)
				if b := p.Src.Node.Chain.At(n); b != nil && string(b.Hash) == string(h) && (!a.ok || n > a.num) {
					a = anchor{true, n, string(h)}
				}
			}
		}
		p.Src.Node.Unlock()
		anchors[p.Key()] = a
	}
	checkCommits := func(p *Pair, r StepResult) {
		if r.Panic != nil {
			fail("Converge panicked: %v", r.Panic)
		}
		if a := anchors[p.Key()]; a.ok {
			p.Src.Node.Lock()
			b := p.Src.Node.Chain.At(a.num)
			still := b != nil && string(b.Hash) == a.hash
			p.Src.Node.Unlock()
			if still {
				for _, c := range r.Commits {
					for _, x := range c.Removed {
						if x.Table == p.Decl.Table && numOf(x.Row["block_num"]) <= a.num {
							fail("%s: a row of block %d was deleted although the recorded position %d was canonical before and after the step", p.Key(), numOf(x.Row["block_num"]), a.num)
						}
						if x.Table == "shovel.task_updates" && x.Row["src_name"] == p.Src.Name && x.Row["ig_name"] == p.Decl.Name && numOf(x.Row["num"]) <= a.num {
							fail("%s: the recorded position %d was removed although position %d was canonical before and after the step", p.Key(), numOf(x.Row["num"]), a.num)
						}
					}
					for _, x := range c.Added {
						if x.Table == p.Decl.Table && numOf(x.Row["block_num"]) <= a.num {
							fail("%s: a row of block %d was rewritten although the recorded position %d was canonical before and after the step", p.Key(), numOf(x.Row["block_num"]), a.num)
						}
					}
				}
				m.label("anchor-checked")
			}
		}
		if r.After.OK && r.After.Num > st.maxEver[p.Src.Name] {
			st.maxEver[p.Src.Name] = r.After.Num
		}
		// frame condition: a step changes only rows and positions stamped with its own pair
		own := ":" + p.Src.Name + "/" + p.Decl.Name
		for k := range touched(r.Commits) {
			if !strings.HasSuffix(k, own) {
				fail("a step of %s changed rows stamped %s", p.Key(), k)
			}
			st.touchedOthers = true
		}
		if len(r.Commits) > 0 {
			for _, c := range r.Commits {
				if len(c.Removed) > 0 {
					st.deletions[p.Key()] = true
				}
			}
		}
		if !st.hasFloor[p.Key()] {
			return
		}
		fl := st.floor[p.Key()]
		for _, c := range r.Commits {
			for _, x := range c.Removed {
				if x.Table == p.Decl.Table && numOf(x.Row["block_num"]) <= fl {
					fail("%s: a row of block %d was deleted although position %d (below every fork) was still canonical", p.Key(), numOf(x.Row["block_num"]), fl)
				}
			}
			for _, x := range c.Added {
				if x.Table == p.Decl.Table && numOf(x.Row["block_num"]) <= fl {
					fail("%s: a row of block %d was rewritten although position %d (below every fork) was still canonical", p.Key(), numOf(x.Row["block_num"]), fl)
				}
			}
		}
	}
	// warm-up: give every pair a position history
	for _, s := range w.Sources {
		m.grow(s, rapid.IntRange(1, 4).Draw(rt, "warmgrow"))
	}
	for _, p := range w.Pairs {
		for k := rapid.IntRange(1, 3).Draw(rt, "warmsteps"); k > 0; k-- {
			checkCommits(p, m.step(p))
		}
	}
	nact := drawActions(rt, 3, 16, 40)
	for i := 0; i < nact; i++ {
		switch rapid.IntRange(0, 11).Draw(rt, "action") {
		case 0:
			m.grow(m.pickSource("growsrc"), rapid.IntRange(1, 5).Draw(rt, "grown"))
		case 1, 2, 3: // reorg between steps
			s := m.pickSource("reorgsrc")
			low, ok := m.lowestCursor(s)
			head := s.Node.Chain.Head().Num
			if !ok || head <= low+1 {
				m.grow(s, 2)
				p := m.pickPair("steppair")
				checkCommits(p, m.step(p))
				continue
			}
			depth := rapid.IntRange(1, min(6, int(head-low-1))).Draw(rt, "depth")
			newLen := max(0, depth+rapid.IntRange(-2, 3).Draw(rt, "dlen"))
			var txs [][]sim.Tx
			for j := 0; j < newLen; j++ {
				txs = append(txs, gen.GenTxs(rt, m.copts))
			}
			m.doReorg(st, s, head-uint64(depth)+1, txs, false)
		case 4, 5, 6: // schedule a reorg inside the next step
			kinds := []string{"", "headers", "blocks", "logs", "receipts", "traces", "latest", "hash"}
			pending = &pend{kind: rapid.SampledFrom(kinds).Draw(rt, "midkind"), k: rapid.IntRange(1, 6).Draw(rt, "k"), nth: rapid.IntRange(1, 2).Draw(rt, "nth"),
				depth: rapid.IntRange(1, 4).Draw(rt, "depth"), newLen: rapid.IntRange(0, 5).Draw(rt, "newlen"), inBatch: rapid.IntRange(0, 2).Draw(rt, "inbatch") == 0}
			if pending.inBatch {
				// the batch that is being answered holds blocks of both chains: at least two replaced
				// heights, the new chain at least as long
				pending.kind, pending.nth = rapid.SampledFrom([]string{"headers", "blocks"}).Draw(rt, "batchkind"), 1
				pending.depth = rapid.IntRange(2, 4).Draw(rt, "batchdepth")
				pending.newLen = pending.depth + rapid.IntRange(0, 1).Draw(rt, "batchlonger")
			}
			for j := 0; j < pending.newLen; j++ {
				pending.txs = append(pending.txs, gen.GenTxs(rt, m.copts))
			}
			m.logf("schedule mid-step reorg on %q k=%d nth=%d depth=%d newlen=%d", pending.kind, pending.k, pending.nth, pending.depth, pending.newLen)
			p := m.pickPair("steppair")
			checkCommits(p, m.step(p))
			pending = nil
		case 8:
			// the position history is pruned (shovel does this every ten minutes, keeping 200)
			keep := rapid.IntRange(1, 4).Draw(rt, "keep")
			// only while no reorg is waiting to be noticed: pruning the history a pending
			// unwind needs puts the fork outside "the retained position history"
			pendingReorg := false
			for _, p := range w.Pairs {
				c := w.Cursor(p)
				if !c.OK {
					continue
				}
				p.Src.Node.Lock()
				b := p.Src.Node.Chain.At(c.Num)
				p.Src.Node.Unlock()
				if b == nil || string(b.Hash) != string(c.Hash) {
					pendingReorg = true
				}
			}
			if pendingReorg {
				m.logf("prune skipped: a recorded position is not canonical")
				continue
			}
			st.floor, st.hasFloor = map[string]uint64{}, map[string]bool{}
			if err := shovel.PruneTask(context.Background(), w.pool, keep); err != nil {
				rt.Fatalf("VERIF-VIOLATION property=%s PruneTask failed: %v", prop, err)
			}
			m.logf("prune positions, keep %d", keep)
			m.label("pruned")
		case 7:
			if rapid.IntRange(0, 2).Draw(rt, "restart") == 0 {
				m.reconfigure()
				if err := w.Restart(); err != nil {
					rt.Fatalf("VERIF-INCONCLUSIVE restart: %v", err)
				}
				m.logf("restart")
				m.label("restart")
				continue
			}
			fallthrough
		default:
			p := m.pickPair("steppair")
			checkCommits(p, m.step(p))
		}
	}
	pending = nil
	w.SetHook(nil)
	// the source settles: grow past every height a task ever recorded
	for _, s := range w.Sources {
		head := s.Node.Chain.Head().Num
		if need := int(st.maxEver[s.Name]) + 1 - int(head); need > 0 {
			m.grow(s, need)
		} else if rapid.Bool().Draw(rt, "finalgrow") {
			m.grow(s, 1)
		}
	}
	// "The source settles" = it stops replacing blocks; a chain keeps growing.
	// A task may still consume a pre-reorg cached segment while settling and
	// record a stale block at the very height of the head, which only the next
	// block can reveal. So: settle and compare; on a mismatch grow one block and
	// try again, at most 3 times. A defect that further growth does not heal
	// still fails.
	final := func() string {
		for _, p := range w.Pairs {
			cur := w.Cursor(p)
			head := p.Src.Node.Chain.Head()
			if !cur.OK || cur.Num != head.Num {
				return fmt.Sprintf("at quiescence %s is at %s, canonical head is %d", p.Key(), curStr(cur), head.Num)
			}
			if string(cur.Hash) != string(head.Hash) {
				return fmt.Sprintf("at quiescence %s records hash %x for block %d, canonical hash is %x", p.Key(), cur.Hash, cur.Num, head.Hash)
			}
			if v := w.CheckPair(p); v != "" {
				return "at quiescence (canonical chain): " + v
			}
			// every retained position must be canonical
			for _, r := range w.db.Rows("shovel.task_updates") {
				if r["src_name"] == p.Src.Name && r["ig_name"] == p.Decl.Name {
					n := numOf(r["num"])
					b := p.Src.Node.Chain.At(n)
					h, _ := r["hash"].([]byte)
					if b == nil || string(b.Hash) != string(h) {
						return fmt.Sprintf("at quiescence %s retains position %d with a non-canonical hash %x", p.Key(), n, h)
					}
				}
			}
		}
		return ""
	}
	for round := 0; ; round++ {
		if msg := m.settle(len(m.decls)+3, checkCommits); msg != "" {
			if len(msg) > 12 && msg[:12] == "INCONCLUSIVE" {
				rt.Fatalf("VERIF-INCONCLUSIVE %s", msg)
			}
			fail("%s", msg)
		}
		v := final()
		if v == "" {
			break
		}
		if round == healRounds {
			fail("%s (after %d further blocks)", v, round)
		}
		m.logf("not canonical yet (%s): the chain grows by one block", v)
		m.label("healed-by-growth")
		for _, s := range w.Sources {
			// past every height a task recorded meanwhile (stale cached heads can be several blocks up)
			m.grow(s, max(1, int(st.maxEver[s.Name])+1-int(s.Node.Chain.Head().Num)))
		}
	}
	nontrivial := st.orphanRows && (st.deep || st.midStep)
	if prop == "C04" {
		// >= 2 pairs share a table or a client AND one of them deleted rows (reorg) or was restarted while another had rows
		shared := m.labels["shared-table"] || len(w.Pairs) > 1
		nontrivial = shared && len(w.Pairs) > 1 && (len(st.deletions) > 0 || m.labels["restart"])
	}
	labels := []string{fmt.Sprintf("reorgs=%d", min(st.reorgs, 4)), fmt.Sprintf("orphanRows=%v", st.orphanRows), fmt.Sprintf("deep=%v", st.deep), fmt.Sprintf("midStep=%v", st.midStep)}
	for l := range m.labels {
		labels = append(labels, l)
	}
	for _, s := range w.Sources {
		if s.Batch > 1 {
			labels = append(labels, "batch>1")
		}
	}
	ev.Case(nontrivial, m.History(), labels...)
	if nontrivial && ev.WantSample(3) {
		ev.Sample(3, map[string]any{"config": m.describeConfig(), "history": m.hist[1:min(len(m.hist), 16)]})
	}
}

func TestC03_Reorg(t *testing.T) {
	ev := evid.For("C03", "Reorg")
	rapid.Check(t, func(rt *rapid.T) {
		c03Property(rt, ev, machineOpts{MaxDecls: 3, Kinds: []string{"log", "tx", "tx", "trace"}, MaxBatch: 8, MaxConc: 4, InitBlocks: [2]int{3, 10}})
	})
}

// simpleTxDecl: a transaction-indexing declaration whose plan includes full blocks.
func simpleTxDecl(name string, start uint64) *refmodel.Decl {
	return &refmodel.Decl{Name: name, Enabled: true, Table: name, Filters: map[*refmodel.Type]*refmodel.Filter{},
		Block:   []refmodel.BlockField{{Name: "tx_hash", Column: "tx_hash"}, {Name: "block_hash", Column: "block_hash"}, {Name: "tx_value", Column: "tx_value"}},
		Columns: []refmodel.Column{{Name: "tx_hash", Type: "bytea"}, {Name: "block_hash", Type: "bytea"}, {Name: "tx_value", Type: "numeric"}},
		Sources: []refmodel.SourceRef{{Name: "src1", Start: start}}}
}

func plainTx(i int) []sim.Tx {
	return []sim.Tx{{Idx: 0, From: make([]byte, 20), To: make([]byte, 20), Value: big.NewInt(int64(100 + i)), GasPrice: big.NewInt(1), V: big.NewInt(1), R: big.NewInt(1), S: big.NewInt(1), EffGasPrice: big.NewInt(1)}}
}

func TestC03_KnownFindings(t *testing.T) {
	// fixed: batch 4, blocks 1..8 indexed as 1-4 and 5-8, depth-1 reorg of block 8
	knownFinding(t, "C03", "C03/unwind-leaves-rows-between-positions", func() string {
		node := sim.NewNode(sim.NewChain())
		for i := 1; i <= 8; i++ {
			node.Chain.Append(plainTx(i))
		}
		w, err := NewWorld(quietT{}, []*SourceCfg{{Name: "src1", ChainID: 1, Batch: 4, Conc: 1, Node: node}}, []*refmodel.Decl{simpleTxDecl("tx1", 1)})
		if w != nil {
			defer w.Close()
		}
		if err != nil {
			return "set-up: " + err.Error()
		}
		p := w.Pairs[0]
		w.Step(p)
		w.Step(p)
		node.Lock()
		node.Chain.Reorg(8, [][]sim.Tx{plainTx(80), plainTx(90)})
		node.Unlock()
		var last StepResult
		for i := 0; i < 6; i++ {
			last = w.Step(p)
		}
		if c := w.Cursor(p); !c.OK || c.Num != 9 {
			return fmt.Sprintf("after a depth-1 reorg with batch 4 the task is stuck at %s (last step: %s)", curStr(c), errString(last.Err))
		}
		return w.CheckPair(p)
	})
	// fixed: a cached segment that predates a reorg was taken for a new reorg: the task
	// unwound a position that was canonical (found by the thorough tier).
	// batch 3 over 3 partitions = one block per cached segment, three integrations on
	// the source = three reads per segment; positions 3, 5, 8; blocks 5.. replaced.
	knownFinding(t, "C03", "C03/stale-cached-segment-taken-for-reorg", func() string {
		node := sim.NewNode(sim.NewChain())
		for i := 1; i <= 5; i++ {
			node.Chain.Append(xferTxs(i))
		}
		w, err := NewWorld(quietT{}, []*SourceCfg{{Name: "src1", ChainID: 1, Batch: 3, Conc: 3, Node: node}},
			[]*refmodel.Decl{xferDecl("a", 1, false), xferDecl("b", 1, false), xferDecl("c", 1, false)})
		if w != nil {
			defer w.Close()
		}
		if err != nil {
			return "set-up: " + err.Error()
		}
		p := w.Pairs[0]
		w.Step(p) // 1-3
		w.Step(p) // 4-5
		node.Lock()
		for i := 6; i <= 8; i++ {
			node.Chain.Append(xferTxs(i))
		}
		node.Unlock()
		for i := 0; i < 6; i++ {
			w.Step(p) // 6-8, once the cached head has expired
		}
		if c := w.Cursor(p); !c.OK || c.Num != 8 {
			return "set-up: position " + curStr(c)
		}
		node.Lock()
		var cs [][]sim.Tx
		for i := 0; i < 7; i++ {
			if i == 0 || i > 3 {
				cs = append(cs, xferTxs(60+i))
			} else {
				cs = append(cs, nil) // no logs at 6-8: nothing to compare the cached headers with
			}
		}
		node.Chain.Reorg(5, cs)
		node.Unlock()
		for i := 0; i < 12; i++ {
			before := w.Cursor(p)
			canonical := false
			if b := node.Chain.At(before.Num); before.OK && b != nil && string(b.Hash) == string(before.Hash) {
				canonical = true
			}
			r := w.Step(p)
			if !canonical {
				continue
			}
			for _, c := range r.Commits {
				for _, x := range c.Removed {
					if x.Table == "shovel.task_updates" && numOf(x.Row["num"]) <= before.Num {
						return fmt.Sprintf("step %d removed the recorded position %d although it is canonical (%s)", i, numOf(x.Row["num"]), errString(r.Err))
					}
					if x.Table == p.Decl.Table && numOf(x.Row["block_num"]) <= before.Num {
						return fmt.Sprintf("step %d deleted a row of block %d although position %d is canonical", i, numOf(x.Row["block_num"]), before.Num)
					}
				}
			}
		}
		if c := w.Cursor(p); !c.OK || c.Num != node.Chain.Head().Num {
			return "after the reorg the task ends at " + curStr(c)
		}
		return w.CheckPair(p)
	})
	// fixed: start above the head (null result) used to panic in Client.Hash
	knownFinding(t, "C03", "C06/null-block-result-nil-deref", func() string {
		node := sim.NewNode(sim.NewChain())
		node.Chain.Append(plainTx(1))
		w, err := NewWorld(quietT{}, []*SourceCfg{{Name: "src1", ChainID: 1, Batch: 1, Conc: 1, Node: node}}, []*refmodel.Decl{simpleTxDecl("tx1", 5)})
		if w != nil {
			defer w.Close()
		}
		if err != nil {
			return "set-up: " + err.Error()
		}
		if r := w.Step(w.Pairs[0]); r.Panic != nil {
			return fmt.Sprintf("Converge panicked with start above the head: %v", r.Panic)
		}
		return ""
	})
}
