package props

// C10 — decoding arbitrary log data never panics, over-reads or runs unbounded.

import (
	"context"
	"encoding/binary"
	"fmt"
	"math"
	"runtime"
	"sync"
	"testing"
	"unsafe"

	"github.com/indexsupply/shovel/dig"
	"github.com/indexsupply/shovel/eth"
	"github.com/indexsupply/shovel/wctx"
	"github.com/indexsupply/shovel/wpg"
	"pgregory.net/rapid"

	"verifharness/evid"
	"verifharness/gen"
	"verifharness/refmodel"
)

func be256(hi byte, lo uint64, hiPos int) []byte {
	w := make([]byte, 32)
	binary.BigEndian.PutUint64(w[24:], lo)
	if hiPos >= 0 {
		w[hiPos] = hi
	}
	return w
}

// boundaryWords returns hostile 32-byte words for data of length n.
func boundaryWords(n int) [][]byte {
	u := func(x uint64) []byte { return be256(0, x, -1) }
	ws := [][]byte{
		u(0), u(1), u(31), u(32), u(33), u(64),
		u(uint64(n)), u(uint64(n) + 1), u(uint64(n) + 31), u(uint64(n) + 32),
		u(1 << 31), u(1<<31 - 1), u(1 << 32), u(1<<32 - 1), u(1 << 62), u(1 << 63), u(1<<63 - 1), u(1<<63 - 32), u(1<<63 + 32),
		u(math.MaxUint64), u(math.MaxUint64 - 31), u(math.MaxUint64 - 32), u(math.MaxUint64 - 63),
		be256(1, 0, 23),   // 2^64: wraps to 0 when read as 64 bit
		be256(1, 32, 23),  // 2^64+32: wraps to 32
		be256(0x80, 0, 0), // 2^255
		be256(0xff, math.MaxUint64, 0),
	}
	full := make([]byte, 32)
	for i := range full {
		full[i] = 0xff
	}
	ws = append(ws, full) // 2^256-1
	if n >= 32 {
		ws = append(ws, u(uint64(n)-31), u(uint64(n)-32), u(uint64(n)-1))
	}
	if n >= 64 {
		ws = append(ws, u(uint64(n)-64), u(uint64(n)-33))
	}
	return ws
}

func exactCap(b []byte) []byte {
	out := make([]byte, len(b))
	copy(out, b)
	return out[:len(out):len(out)]
}

func within(cell, input []byte) bool {
	if len(cell) == 0 {
		return true
	}
	if len(input) == 0 {
		return false
	}
	c0 := uintptr(unsafe.Pointer(&cell[0]))
	i0 := uintptr(unsafe.Pointer(&input[0]))
	return c0 >= i0 && c0+uintptr(len(cell)) <= i0+uintptr(len(input))
}

func countArrays(e *refmodel.Event) int {
	n := 0
	var walk func(t *refmodel.Type)
	walk = func(t *refmodel.Type) {
		switch t.Kind {
		case refmodel.KArray:
			n++
			walk(t.Elem)
		case refmodel.KTuple:
			for _, f := range t.Fields {
				walk(f)
			}
		}
	}
	for _, in := range e.Inputs {
		if !in.Indexed {
			walk(in)
		}
	}
	return n
}

// c10Check runs the decoder on data and applies the oracles. Returns a
// violation description or "".
func c10Check(e *refmodel.Event, res *dig.Result, data []byte, measure bool) string {
	input := exactCap(data)
	ncols := 0
	for _, s := range e.Selected() {
		if !s.Indexed {
			ncols++
		}
	}
	depth := e.ArrayDepth()
	per := float64(len(input)/32 + 2)
	bound := float64(countArrays(e)+1) * math.Pow(per, float64(depth))
	var (
		err    error
		rows   [][][]byte
		m0, m1 runtime.MemStats
	)
	if measure {
		runtime.ReadMemStats(&m0)
	}
	p := catch(func() {
		err = res.Scan(input)
		if err == nil {
			rows = res.Bytes()
		}
	})
	if measure {
		runtime.ReadMemStats(&m1)
	}
	if p != nil {
		return fmt.Sprintf("Scan panicked: %v", p)
	}
	alloc := float64(m1.TotalAlloc - m0.TotalAlloc)
	// per row: a row header + ncols slice headers, twice (collection + Bytes copy), plus slack
	limit := bound*float64(48+48*(ncols+1))*2 + 64*1024
	if measure && alloc > limit {
		return fmt.Sprintf("Scan allocated %.0f bytes for %d bytes of data (limit %.0f, rows bound %.0f)", alloc, len(input), limit, bound)
	}
	if err != nil {
		return ""
	}
	if float64(len(rows)) > bound {
		return fmt.Sprintf("Scan returned %d rows for %d bytes of data (bound %.0f)", len(rows), len(input), bound)
	}
	for i, r := range rows {
		for j, c := range r {
			if !within(c, input) {
				return fmt.Sprintf("row %d cell %d (%d bytes) is not a sub-range of the input", i, j, len(c))
			}
		}
	}
	return ""
}

// c10Insert offers the data to Integration.Insert as a matching log.
func c10Insert(e *refmodel.Event, ig dig.Integration, topics [][]byte, data []byte) string {
	b := eth.Block{Header: eth.Header{Number: 7, Hash: make([]byte, 32)}}
	l := eth.Log{Idx: 0, Address: make([]byte, 20), Data: exactCap(data)}
	for _, tp := range topics {
		l.Topics = append(l.Topics, eth.Bytes(tp))
	}
	b.Txs = append(b.Txs, eth.Tx{Idx: 0, Receipt: eth.Receipt{Logs: []eth.Log{l}}})
	cc := &capConn{}
	ctx := wctx.WithSrcName(context.Background(), "src")
	if p := catch(func() { ig.Insert(ctx, new(sync.Mutex), cc, []eth.Block{b}) }); p != nil {
		return fmt.Sprintf("Integration.Insert panicked: %v", p)
	}
	for _, r := range cc.rows {
		for _, v := range r {
			if p := catch(func() { canon(v) }); p != nil {
				return fmt.Sprintf("rendering an inserted value panicked: %v", p)
			}
		}
	}
	return ""
}

func c10Integration(e *refmodel.Event) (dig.Integration, error) {
	var cols []wpg.Column
	for _, s := range e.Selected() {
		cols = append(cols, wpg.Column{Name: s.Column, Type: "bytea"})
	}
	return dig.New("ig", digEvent(e), nil, wpg.Table{Name: "t", Columns: cols}, dig.Notification{}, "or")
}

func c10Case(rt *rapid.T, ev *evid.Rec) {
	to := gen.DefaultTypeOpts
	to.DynBias = true
	e := gen.GenEvent(rt, gen.EventOpts{Types: to, MaxInputs: 4, AllowIndexed: true, NeedSelected: true, SelProb: 55})
	de := digEvent(e)
	res := dig.NewResult(de.ABIType())
	ig, err := c10Integration(e)
	if err != nil {
		rt.Fatalf("dig.New: %v", err)
	}
	vals := gen.GenEventValues(rt, e, gen.ValueOpts{MaxDynLen: 3, MaxBytes: 70})
	var nonIndexed []refmodel.Value
	for i, in := range e.Inputs {
		if !in.Indexed {
			nonIndexed = append(nonIndexed, vals[i])
		}
	}
	topics, _ := e.LogOf(vals)
	valid, marks := refmodel.EncodeSeqMarked(nonIndexed)
	mode := rapid.SampledFrom([]string{"mark", "mark", "mark2", "anyword", "truncate", "random", "valid+tail"}).Draw(rt, "mode")
	data := append([]byte{}, valid...)
	nontrivial := false
	desc := mode
	switch mode {
	case "mark", "mark2":
		if len(marks) == 0 {
			mode = "anyword"
			break
		}
		k := 1
		if mode == "mark2" {
			k = 2
		}
		for i := 0; i < k; i++ {
			pos := rapid.SampledFrom(marks).Draw(rt, "markpos")
			ws := boundaryWords(len(valid))
			w := ws[rapid.IntRange(0, len(ws)-1).Draw(rt, "bw")]
			copy(data[pos:pos+32], w)
			desc += fmt.Sprintf("@%d=%x", pos, w[20:])
		}
		nontrivial = true
	}
	switch mode {
	case "anyword":
		if len(data) >= 32 {
			pos := 32 * rapid.IntRange(0, len(data)/32-1).Draw(rt, "wordpos")
			ws := boundaryWords(len(valid))
			w := ws[rapid.IntRange(0, len(ws)-1).Draw(rt, "bw")]
			copy(data[pos:pos+32], w)
			for _, m := range marks {
				if m == pos {
					nontrivial = true
				}
			}
			desc += fmt.Sprintf("@%d=%x", pos, w[20:])
		}
	case "truncate":
		cut := rapid.IntRange(0, len(data)).Draw(rt, "cut")
		data = data[:cut]
		nontrivial = cut < len(valid) && len(marks) > 0
		desc += fmt.Sprint(cut)
	case "random":
		n := rapid.IntRange(0, 400).Draw(rt, "rndlen")
		data = rapid.SliceOfN(rapid.Byte(), n, n).Draw(rt, "rnd")
		// small words make plausible offsets
		for i := 0; i+32 <= len(data); i += 32 {
			if rapid.Bool().Draw(rt, "small") {
				copy(data[i:i+32], be256(0, uint64(rapid.IntRange(0, len(data)+40).Draw(rt, "smallv")), -1))
			}
		}
		nontrivial = len(marks) > 0 && len(data) >= 32
	case "valid+tail":
		data = append(data, rapid.SliceOfN(rapid.Byte(), 0, 70).Draw(rt, "tail")...)
	}
	if v := c10Check(e, res, data, true); v != "" {
		rt.Fatalf("VERIF-VIOLATION property=C10 %s\n mode=%s\n event=%s\n data=%x", v, desc, eventJSON(e), data)
	}
	// decoder instance stays usable: a following valid log still decodes exactly
	if err := res.Scan(valid); err != nil {
		rt.Fatalf("VERIF-VIOLATION property=C10 decoder unusable after hostile input: %v\n event=%s", err, eventJSON(e))
	}
	if d := compareRows(res.Bytes(), e.DataRows(vals)); d != "" {
		rt.Fatalf("VERIF-VIOLATION property=C10 decoder state corrupted by hostile input: %s\n mode=%s\n event=%s\n hostile=%x", d, desc, eventJSON(e), data)
	}
	// the log that carries the data: usually the declared event's own topics, sometimes another
	// topic list (LOG0: none at all; one fewer; one more) — such logs reach Insert with every block
	// that is loaded with its receipts
	tshape := rapid.SampledFrom([]string{"own", "own", "own", "none", "fewer", "more"}).Draw(rt, "topicshape")
	switch tshape {
	case "none":
		topics = nil
	case "fewer":
		topics = topics[:len(topics)-1]
	case "more":
		if len(topics) < 4 {
			topics = append(append([][]byte{}, topics...), make([]byte, 32))
		}
	}
	if v := c10Insert(e, ig, topics, data); v != "" {
		rt.Fatalf("VERIF-VIOLATION property=C10 %s\n mode=%s topics=%s\n event=%s\n data=%x", v, desc, tshape, eventJSON(e), data)
	}
	ev.Case(nontrivial, e.Signature()+desc+fmt.Sprintf("%x", data), "mode="+mode, fmt.Sprintf("marks>0=%v", len(marks) > 0), "topics="+tshape)
	if nontrivial && ev.WantSample(4) {
		ev.Sample(4, map[string]any{"signature": e.Signature(), "mutation": desc, "data_len": len(data)})
	}
}

func TestC10_Hostile(t *testing.T) {
	ev := evid.For("C10", "Hostile")
	rapid.Check(t, func(rt *rapid.T) { c10Case(rt, ev) })
}

// TestC10_AllTruncations: for generated declarations, every prefix of a valid
// encoding and every single boundary word at every offset/length position.
func TestC10_AllTruncations(t *testing.T) {
	ev := evid.For("C10", "AllTruncations")
	rapid.Check(t, func(rt *rapid.T) {
		e := gen.GenEvent(rt, gen.EventOpts{Types: gen.TypeOpts{MaxDepth: 3, MaxTuple: 3, MaxFixed: 11, DynBias: true}, MaxInputs: rapid.IntRange(3, 5).Draw(rt, "maxinputs"), NeedSelected: true, SelProb: 60})
		de := digEvent(e)
		res := dig.NewResult(de.ABIType())
		vals := gen.GenEventValues(rt, e, gen.ValueOpts{MaxDynLen: 2, MaxBytes: 40})
		valid, marks := refmodel.EncodeSeqMarked(vals)
		if len(valid) > 1500 {
			rt.Skip()
		}
		for cut := 0; cut <= len(valid); cut++ {
			if v := c10Check(e, res, valid[:cut], cut%16 == 0); v != "" {
				rt.Fatalf("VERIF-VIOLATION property=C10 %s\n truncated at %d of %d\n event=%s\n data=%x", v, cut, len(valid), eventJSON(e), valid[:cut])
			}
			ev.Case(len(marks) > 0 && cut < len(valid), fmt.Sprintf("%s|%x|cut%d", e.Signature(), valid, cut))
		}
		// zero-filled data of every length (offsets and lengths of 0 are all "in bounds"), and the
		// valid encoding with its tail zeroed from every word boundary on
		for n := 0; n <= min(len(valid)+64, 1564); n++ {
			if v := c10Check(e, res, make([]byte, n), false); v != "" {
				rt.Fatalf("VERIF-VIOLATION property=C10 %s\n %d zero bytes\n event=%s", v, n, eventJSON(e))
			}
			ev.Case(len(marks) > 0, fmt.Sprintf("%s|zeros%d", e.Signature(), n))
		}
		for cut := 0; cut < len(valid); cut += 32 {
			data := append(append([]byte{}, valid[:cut]...), make([]byte, len(valid)-cut)...)
			for trim := 0; trim <= 64 && trim <= len(data); trim += 8 {
				if v := c10Check(e, res, data[:len(data)-trim], false); v != "" {
					rt.Fatalf("VERIF-VIOLATION property=C10 %s\n tail zeroed from %d, %d bytes cut\n event=%s\n data=%x", v, cut, trim, eventJSON(e), data[:len(data)-trim])
				}
			}
			ev.Case(len(marks) > 0, fmt.Sprintf("%s|%x|zerotail%d", e.Signature(), valid, cut))
		}
		ws := boundaryWords(len(valid))
		for _, pos := range marks {
			for _, w := range ws {
				data := append([]byte{}, valid...)
				copy(data[pos:pos+32], w)
				if v := c10Check(e, res, data, true); v != "" {
					rt.Fatalf("VERIF-VIOLATION property=C10 %s\n word at %d replaced by %x\n event=%s\n data=%x", v, pos, w, eventJSON(e), data)
				}
				ev.Case(true, fmt.Sprintf("%s|%x|%d|%x", e.Signature(), valid, pos, w))
			}
		}
		ev.Label(fmt.Sprintf("marks=%d", min(len(marks), 6)))
		if len(marks) > 1 {
			ev.Sample(3, map[string]any{"signature": e.Signature(), "encoding_len": len(valid), "offset_or_length_words_at": marks})
		}
	})
}

// FuzzC10: native fuzzing; the first bytes pick a declaration from a fixed
// table, the rest is the log data.
var c10FuzzEvents = func() []*refmodel.Event {
	u := func() *refmodel.Type { return &refmodel.Type{Kind: refmodel.KUint, Bits: 256} }
	by := func() *refmodel.Type { return &refmodel.Type{Kind: refmodel.KBytes} }
	st := func() *refmodel.Type { return &refmodel.Type{Kind: refmodel.KString} }
	arr := func(n int, e *refmodel.Type) *refmodel.Type {
		return &refmodel.Type{Kind: refmodel.KArray, Len: n, Elem: e}
	}
	tup := func(fs ...*refmodel.Type) *refmodel.Type { return &refmodel.Type{Kind: refmodel.KTuple, Fields: fs} }
	sel := func(t *refmodel.Type, c string) *refmodel.Type { t.Column = c; t.Name = c; return t }
	mk := func(ins ...*refmodel.Type) *refmodel.Event { return &refmodel.Event{Name: "F", Inputs: ins} }
	return []*refmodel.Event{
		mk(sel(by(), "a")),
		mk(sel(u(), "a"), sel(st(), "b")),
		mk(sel(arr(-1, u()), "a")),
		mk(sel(arr(-1, by()), "a")),
		mk(sel(arr(-1, arr(-1, u())), "a")),
		mk(sel(arr(3, arr(-1, st())), "a")),
		mk(arr(-1, tup(sel(u(), "a"), sel(by(), "b")))),
		mk(tup(sel(arr(-1, u()), "a"), sel(st(), "b")), sel(u(), "c")),
		mk(by(), arr(-1, st()), sel(arr(12, u()), "a")),
		mk(arr(-1, tup(u(), arr(-1, by()), sel(st(), "a")))),
		// dynamic heads, then a fixed-size composite nobody selected, then a selected static word
		mk(st(), by(), arr(2, u()), sel(u(), "a")),
		mk(sel(st(), "s"), arr(-1, u()), tup(u(), u(), u()), sel(u(), "a")),
		mk(by(), st(), by(), arr(3, tup(u(), u())), sel(u(), "a"), sel(by(), "b")),
		mk(tup(st(), by(), arr(2, u()), sel(u(), "a")), sel(u(), "b")),
	}
}()

func FuzzC10(f *testing.F) {
	type dec struct {
		e   *refmodel.Event
		res *dig.Result
		ig  dig.Integration
	}
	var decs []dec
	for _, e := range c10FuzzEvents {
		ig, err := c10Integration(e)
		if err != nil {
			f.Fatal(err)
		}
		decs = append(decs, dec{e, dig.NewResult(digEvent(e).ABIType()), ig})
	}
	for i := range decs {
		for _, w := range boundaryWords(96) {
			seed := append([]byte{byte(i)}, be256(0, 32, -1)...)
			seed = append(seed, w...)
			seed = append(seed, make([]byte, 32)...)
			f.Add(seed)
		}
	}
	var mu sync.Mutex
	f.Fuzz(func(t *testing.T, b []byte) {
		if len(b) == 0 {
			return
		}
		d := decs[int(b[0])%len(decs)]
		mu.Lock()
		defer mu.Unlock()
		if v := c10Check(d.e, d.res, b[1:], true); v != "" {
			t.Fatalf("VERIF-VIOLATION property=C10 %s\n event=%s\n data=%x", v, eventJSON(d.e), b[1:])
		}
		if v := c10Insert(d.e, d.ig, [][]byte{d.e.SigHash()}, b[1:]); v != "" {
			t.Fatalf("VERIF-VIOLATION property=C10 %s\n event=%s\n data=%x", v, eventJSON(d.e), b[1:])
		}
	})
}

// TestC10_ZeroFill: every declaration of the fixed table x zero-filled data of every length up to
// 1 KiB, and the same with one word set to each boundary value (exhaustive over the table).
func TestC10_ZeroFill(t *testing.T) {
	ev := evid.For("C10", "ZeroFill")
	si, sn := shard()
	for ei, e := range c10FuzzEvents {
		if ei%sn != si {
			continue
		}
		res := dig.NewResult(digEvent(e).ABIType())
		for n := 0; n <= 1024; n++ {
			data := make([]byte, n)
			if v := c10Check(e, res, data, false); v != "" {
				t.Fatalf("VERIF-VIOLATION property=C10 %s\n %d zero bytes\n event=%s", v, n, eventJSON(e))
			}
			ev.Case(true, fmt.Sprintf("%d|zeros%d", ei, n), "zeros")
			if n%32 == 0 && n >= 32 && n <= 384 {
				for pos := 0; pos+32 <= n; pos += 32 {
					for _, w := range [][]byte{be256(0, 32, 0), be256(0, 64, 0), be256(0, uint64(n), 0), be256(0, uint64(n-32), 0), be256(0, 1, 0)} {
						d2 := make([]byte, n)
						copy(d2[pos:], w)
						if v := c10Check(e, res, d2, false); v != "" {
							t.Fatalf("VERIF-VIOLATION property=C10 %s\n %d bytes, word at %d = %x\n event=%s", v, n, pos, w, eventJSON(e))
						}
						ev.Case(true, fmt.Sprintf("%d|%d|%d|%x", ei, n, pos, w), "one-word")
					}
				}
			}
		}
		ev.Sample(3, map[string]any{"signature": e.Signature(), "lengths": "0..1024"})
	}
	ev.Set("exhaustive_over_fixed_table", true)
}

func TestC10_KnownFindings(t *testing.T) {
	by := &refmodel.Type{Kind: refmodel.KBytes, Name: "a", Column: "c1"}
	e := &refmodel.Event{Name: "E", Inputs: []*refmodel.Type{by}}
	knownFinding(t, "C10", "C10/scan-slices-before-length-check", func() string {
		res := dig.NewResult(digEvent(e).ABIType())
		for _, data := range [][]byte{
			be256(0, 32, -1)[:20],
			append(be256(0, 32, -1), be256(0, 1<<63, -1)...),
			append(be256(0, 32, -1), be256(0, math.MaxUint64-31, -1)...),
		} {
			if v := c10Check(e, res, data, true); v != "" {
				return v
			}
		}
		arr := &refmodel.Type{Kind: refmodel.KArray, Len: -1, Elem: &refmodel.Type{Kind: refmodel.KUint, Bits: 256}, Name: "a", Column: "c1"}
		e2 := &refmodel.Event{Name: "E", Inputs: []*refmodel.Type{arr}}
		res2 := dig.NewResult(digEvent(e2).ABIType())
		return c10Check(e2, res2, append(be256(0, 32, -1), be256(0, 1<<63, -1)...), true)
	})
}
