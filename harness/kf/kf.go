// Package kf reads /verif/known_findings.json (committed, never written at run time).
package kf

import (
	"encoding/json"
	"fmt"
	"os"
	"path/filepath"
	"sync"
)

type Finding struct {
	Property string `json:"property"`
	ID       string `json:"id"`
	Status   string `json:"status"` // "open" | "fixed"
	Commit   string `json:"commit,omitempty"`
	What     string `json:"what"`
	Match    string `json:"match"`
}

type file struct {
	Findings []Finding `json:"findings"`
}

var (
	once sync.Once
	all  map[string]Finding
)

func Root() string {
	if r := os.Getenv("VERIF_ROOT"); r != "" {
		return r
	}
	return "/verif"
}

func load() {
	all = map[string]Finding{}
	b, err := os.ReadFile(filepath.Join(Root(), "known_findings.json"))
	if err != nil {
		return
	}
	var f file
	if err := json.Unmarshal(b, &f); err != nil {
		panic(fmt.Sprintf("known_findings.json: %v", err))
	}
	for _, x := range f.Findings {
		all[x.ID] = x
	}
}

// Open reports whether finding id is listed with status "open".
func Open(id string) bool {
	once.Do(load)
	f, ok := all[id]
	return ok && f.Status == "open"
}

func Get(id string) (Finding, bool) {
	once.Do(load)
	f, ok := all[id]
	return f, ok
}

func ForProperty(p string) []Finding {
	once.Do(load)
	var res []Finding
	for _, f := range all {
		if f.Property == p {
			res = append(res, f)
		}
	}
	return res
}
