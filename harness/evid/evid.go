// Package evid collects per-property coverage counters inside a test process
// and writes them as a shard file that ../check merges into evidence/<id>.json.
package evid

import (
	"encoding/binary"
	"encoding/json"
	"fmt"
	"hash/fnv"
	"os"
	"path/filepath"
	"sort"
	"sync"
	"time"
)

type Rec struct {
	mu         sync.Mutex
	Prop       string
	Unit       string
	evals      int64
	nontrivial int64
	hashes     map[uint64]struct{}
	labels     map[string]int64
	samples    []any
	nsamples   int
	excluded   int64
	extra      map[string]any
	t0         time.Time
}

var (
	mu   sync.Mutex
	recs = map[string]*Rec{}
)

// For returns the recorder for (property, unit); unit is the name of the test
// function so that several tests of one property do not mix their samples.
func For(prop, unit string) *Rec {
	mu.Lock()
	defer mu.Unlock()
	k := prop + "/" + unit
	r, ok := recs[k]
	if !ok {
		r = &Rec{Prop: prop, Unit: unit, hashes: map[uint64]struct{}{}, labels: map[string]int64{}, extra: map[string]any{}, t0: time.Now()}
		recs[k] = r
	}
	return r
}

func Hash(s string) uint64 {
	h := fnv.New64a()
	h.Write([]byte(s))
	return h.Sum64()
}

// Case records one generated case. canon is a canonical description of the
// case; it is hashed, and the set of hashes of non-trivial cases gives the
// measured distinct_nontrivial count.
func (r *Rec) Case(nontrivial bool, canon string, labels ...string) {
	r.mu.Lock()
	defer r.mu.Unlock()
	r.evals++
	if nontrivial {
		r.nontrivial++
		r.hashes[Hash(r.Unit+"|"+canon)] = struct{}{}
	}
	for _, l := range labels {
		r.labels[l]++
	}
}

func (r *Rec) Label(l string) {
	r.mu.Lock()
	r.labels[l]++
	r.mu.Unlock()
}

func (r *Rec) LabelN(l string, n int64) {
	r.mu.Lock()
	r.labels[l] += n
	r.mu.Unlock()
}

// Sample keeps up to max literal samples (the first ones offered).
func (r *Rec) Sample(max int, v any) {
	r.mu.Lock()
	defer r.mu.Unlock()
	r.nsamples++
	if len(r.samples) < max {
		r.samples = append(r.samples, v)
	}
}

func (r *Rec) WantSample(max int) bool {
	r.mu.Lock()
	defer r.mu.Unlock()
	return len(r.samples) < max
}

func (r *Rec) Excluded(n int64) {
	r.mu.Lock()
	r.excluded += n
	r.mu.Unlock()
}

func (r *Rec) Set(k string, v any) {
	r.mu.Lock()
	r.extra[k] = v
	r.mu.Unlock()
}

type shardFile struct {
	Prop       string           `json:"prop"`
	Unit       string           `json:"unit"`
	Shard      string           `json:"shard"`
	Evals      int64            `json:"evaluations"`
	Nontrivial int64            `json:"nontrivial"`
	Distinct   int              `json:"distinct_nontrivial_in_shard"`
	Labels     map[string]int64 `json:"labels"`
	Samples    []any            `json:"samples"`
	Excluded   int64            `json:"excluded"`
	Extra      map[string]any   `json:"extra"`
	WallS      float64          `json:"wall_s"`
}

// Flush writes every recorder to $VERIF_EVID_DIR (no-op when unset).
func Flush() {
	dir := os.Getenv("VERIF_EVID_DIR")
	if dir == "" {
		return
	}
	shard := os.Getenv("VERIF_SHARD")
	if shard == "" {
		shard = "0"
	}
	mu.Lock()
	defer mu.Unlock()
	for _, r := range recs {
		r.mu.Lock()
		sf := shardFile{Prop: r.Prop, Unit: r.Unit, Shard: shard, Evals: r.evals, Nontrivial: r.nontrivial,
			Distinct: len(r.hashes), Labels: r.labels, Samples: r.samples, Excluded: r.excluded, Extra: r.extra,
			WallS: time.Since(r.t0).Seconds()}
		base := filepath.Join(dir, fmt.Sprintf("%s.%s.%s.%d", r.Prop, r.Unit, shard, os.Getpid()))
		b, err := json.Marshal(sf)
		if err != nil {
			// samples must be JSON-encodable; fall back to their %v form
			ss := make([]any, len(sf.Samples))
			for i, s := range sf.Samples {
				ss[i] = fmt.Sprintf("%+v", s)
			}
			sf.Samples = ss
			b, _ = json.Marshal(sf)
		}
		os.WriteFile(base+".json", b, 0o644)
		hs := make([]uint64, 0, len(r.hashes))
		for h := range r.hashes {
			hs = append(hs, h)
		}
		sort.Slice(hs, func(i, j int) bool { return hs[i] < hs[j] })
		buf := make([]byte, 8*len(hs))
		for i, h := range hs {
			binary.LittleEndian.PutUint64(buf[8*i:], h)
		}
		os.WriteFile(base+".hashes", buf, 0o644)
		r.mu.Unlock()
	}
}
