// Package sim is the simulated Ethereum node: a chain model whose history the
// generator owns, served over HTTP JSON-RPC with geth/erigon semantics.
package sim

import (
	"encoding/binary"
	"fmt"
	"math/big"

	"verifharness/refmodel"
)

type Log struct {
	Idx    uint64 // block-global log index
	Addr   []byte // 20 bytes
	Topics [][]byte
	Data   []byte

	// provenance for the reference projection
	Event *refmodel.Event  // the declaration this log was encoded for (nil for raw decoys)
	Vals  []refmodel.Value // its input values
	Kind  string           // "match", "decoy-...", free text for labels
}

type Trace struct {
	From, To []byte
	Value    *big.Int
	CallType string
}

type Tx struct {
	Idx      uint64
	Hash     []byte
	From, To []byte // To == nil: contract creation
	Value    *big.Int
	Input    []byte
	Type     byte
	Nonce    uint64
	Gas      uint64
	GasPrice *big.Int
	MaxPrio  *big.Int
	MaxFee   *big.Int
	V, R, S  *big.Int

	Status       byte
	GasUsed      uint64
	EffGasPrice  *big.Int
	ContractAddr []byte // nil unless creation

	Logs   []Log
	Traces []Trace
}

type Block struct {
	Num     uint64
	Hash    []byte
	Parent  []byte
	Time    uint64
	Txs     []Tx
	Version uint64 // unique per block object ever created
}

// Chain is the canonical chain at one moment; index == block number.
type Chain struct {
	Blocks  []*Block
	version uint64
	// Orphans: every block ever replaced, for "served versions" checks.
	Orphans []*Block
	// Forks records the lowest replaced height of every reorg.
	Forks []uint64
}

// HasFeeCap: transaction types that carry maxFeePerGas / maxPriorityFeePerGas
// (EIP-1559 and its successors: blob 0x3, set-code 0x4).
func (tx *Tx) HasFeeCap() bool { return tx.Type >= 2 && tx.Type <= 4 }

func hashOf(tag byte, num, version uint64) []byte {
	h := make([]byte, 32)
	h[0] = tag
	binary.BigEndian.PutUint64(h[8:], version)
	binary.BigEndian.PutUint64(h[24:], num)
	// avoid leading zero bytes inside so that every field is non-zero
	h[1], h[2] = 0xb1, 0x0c
	return h
}

// NewChain creates a chain with a genesis block 0.
func NewChain() *Chain {
	c := &Chain{}
	c.Append(nil)
	return c
}

func (c *Chain) Head() *Block { return c.Blocks[len(c.Blocks)-1] }

func (c *Chain) Len() int { return len(c.Blocks) }

// Append adds one block with the given transactions on top of the head.
func (c *Chain) Append(txs []Tx) *Block {
	c.version++
	num := uint64(len(c.Blocks))
	b := &Block{Num: num, Version: c.version, Hash: hashOf(0xaa, num, c.version), Time: 1_600_000_000 + 12*num + c.version%7, Txs: txs}
	if num > 0 {
		b.Parent = c.Blocks[num-1].Hash
	} else {
		b.Parent = hashOf(0x99, 0, 0)
	}
	c.seal(b)
	c.Blocks = append(c.Blocks, b)
	return b
}

// seal fixes block-dependent fields of the contents (log indexes, tx indexes).
func (c *Chain) seal(b *Block) {
	li := uint64(0)
	for i := range b.Txs {
		tx := &b.Txs[i]
		if tx.Hash == nil {
			tx.Hash = hashOf(0xcc, b.Num<<16|uint64(i), b.Version)
		}
		for j := range tx.Logs {
			tx.Logs[j].Idx = li
			li++
		}
	}
}

// Reorg replaces the blocks from height fork (inclusive) by len(contents)
// new blocks. fork must be >= 1.
func (c *Chain) Reorg(fork uint64, contents [][]Tx) {
	if fork < 1 || fork > uint64(len(c.Blocks)) {
		panic(fmt.Sprintf("bad fork point %d (len %d)", fork, len(c.Blocks)))
	}
	c.Orphans = append(c.Orphans, c.Blocks[fork:]...)
	c.Blocks = c.Blocks[:fork]
	c.Forks = append(c.Forks, fork)
	for _, txs := range contents {
		c.Append(txs)
	}
}

// At returns the canonical block at height n, or nil.
func (c *Chain) At(n uint64) *Block {
	if n >= uint64(len(c.Blocks)) {
		return nil
	}
	return c.Blocks[n]
}

// IsCanonical reports whether hash is the hash of a canonical block.
func (c *Chain) IsCanonical(hash []byte) bool {
	for _, b := range c.Blocks {
		if string(b.Hash) == string(hash) {
			return true
		}
	}
	return false
}

// Clone makes a deep-enough copy for snapshotting (blocks are immutable once appended).
func (c *Chain) Clone() *Chain {
	return &Chain{Blocks: append([]*Block{}, c.Blocks...), version: c.version, Orphans: append([]*Block{}, c.Orphans...), Forks: append([]uint64{}, c.Forks...)}
}
