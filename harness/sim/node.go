package sim

import (
	"encoding/hex"
	"encoding/json"
	"fmt"
	"io"
	"math/big"
	"net"
	"net/http"
	"strconv"
	"strings"
	"sync"
)

// ReqInfo describes one HTTP request (single call or batch) for hooks.
type ReqInfo struct {
	Seq     int    // 0-based per node
	Kind    string // latest | hash | headers | blocks | receipts | logs | traces | other
	Methods []string
	From    uint64 // first block number asked for (0 for latest)
	N       int    // number of calls in the request
}

// Fault is what OnRequest may return to corrupt or fail the response.
type Fault struct {
	Status    int                // non-zero: answer with this HTTP status and a short body
	KeepBody  bool               // with Status: send the regular JSON-RPC body under that status (a gateway forwarding a partial answer)
	Truncate  int                // >0: send only the first Truncate bytes of the body
	BadJSON   bool               // replace the body by something that is not JSON
	CloseConn bool               // hijack and close the TCP connection without answering
	Mutate    func(resp any) any // rewrite the decoded response (map or []any) before sending
	Between   func(i int)        // called (node locked) before element i >= 1 of a batch is answered: the chain may change in the middle of one response
	// Lag > 0: the request is answered by a replica that is Lag blocks behind
	// (load-balanced provider): blocks above its head do not exist for it (null
	// results, eth_getLogs answers from the blocks it has). Correct data, incomplete.
	Lag int
	// LagHit is set by the node when the lagging answer differs from what an
	// up-to-date replica would have answered (the request reached beyond the replica's head).
	LagHit bool
}

type Served struct {
	Seq    int
	Kind   string
	Blocks []ServedBlock
}

type ServedBlock struct {
	Num     uint64
	Version uint64
}

type LogFilterSeen struct {
	From, To  uint64
	Addresses []string
	Topics    [][]string
}

type Node struct {
	mu    sync.Mutex
	Chain *Chain
	seq   int

	// OnRequest is called with the node lock held before a request is
	// answered; it may mutate Chain (growth, reorg) and return a fault.
	OnRequest func(n *Node, ri ReqInfo) *Fault

	KeepLog     bool
	served      []Served
	counts      map[string]int
	logFilters  []LogFilterSeen
	NoLogFilter bool // answer eth_getLogs without applying address/topics (C12 metamorphic run)
	// ReverseReceiptBatches: eth_getBlockReceipts batches are answered in reverse order
	// (JSON-RPC 2.0 leaves the order of a batch response open; every receipt names its block).
	ReverseReceiptBatches bool
	// ReverseReceipts: the receipts of one block are listed last transaction first
	// (every receipt names its transaction by transactionIndex and transactionHash).
	ReverseReceipts bool
	// EmptyTraceOK: a block without traces answers trace_block with [].
	ChainID uint64
}

func NewNode(c *Chain) *Node { return &Node{Chain: c, counts: map[string]int{}, ChainID: 1} }

// Lock/Unlock let the harness mutate the chain between steps.
func (n *Node) Lock()   { n.mu.Lock() }
func (n *Node) Unlock() { n.mu.Unlock() }

func (n *Node) Counts() map[string]int {
	n.mu.Lock()
	defer n.mu.Unlock()
	m := map[string]int{}
	for k, v := range n.counts {
		m[k] = v
	}
	return m
}

func (n *Node) Served() []Served {
	n.mu.Lock()
	defer n.mu.Unlock()
	return append([]Served{}, n.served...)
}

func (n *Node) LogFilters() []LogFilterSeen {
	n.mu.Lock()
	defer n.mu.Unlock()
	return append([]LogFilterSeen{}, n.logFilters...)
}

func (n *Node) Seq() int {
	n.mu.Lock()
	defer n.mu.Unlock()
	return n.seq
}

// ---- JSON rendering ---------------------------------------------------------

func hexU(x uint64) string { return "0x" + strconv.FormatUint(x, 16) }
func hexB(b []byte) string { return "0x" + hex.EncodeToString(b) }
func hexBig(x *big.Int) string {
	if x == nil {
		return "0x0"
	}
	return "0x" + x.Text(16)
}

func optB(b []byte) any {
	if b == nil {
		return nil
	}
	return hexB(b)
}

func (n *Node) txJSON(b *Block, tx *Tx) map[string]any {
	m := map[string]any{
		"blockHash": hexB(b.Hash), "blockNumber": hexU(b.Num), "transactionIndex": hexU(tx.Idx),
		"hash": hexB(tx.Hash), "from": hexB(tx.From), "to": optB(tx.To), "value": hexBig(tx.Value),
		"input": hexB(tx.Input), "type": hexU(uint64(tx.Type)), "nonce": hexU(tx.Nonce), "gas": hexU(tx.Gas),
		"gasPrice": hexBig(tx.GasPrice), "chainId": hexU(n.ChainID),
		"v": hexBig(tx.V), "r": hexBig(tx.R), "s": hexBig(tx.S),
	}
	if tx.HasFeeCap() {
		m["maxPriorityFeePerGas"] = hexBig(tx.MaxPrio)
		m["maxFeePerGas"] = hexBig(tx.MaxFee)
	}
	return m
}

func (n *Node) blockJSON(b *Block, full bool) map[string]any {
	m := map[string]any{
		"number": hexU(b.Num), "hash": hexB(b.Hash), "parentHash": hexB(b.Parent),
		"timestamp": hexU(b.Time), "logsBloom": zeroBloom, "miner": "0x" + strings.Repeat("00", 20),
		"gasLimit": "0x1c9c380", "gasUsed": "0x0",
	}
	txs := make([]any, 0, len(b.Txs))
	for i := range b.Txs {
		if full {
			txs = append(txs, n.txJSON(b, &b.Txs[i]))
		} else {
			txs = append(txs, hexB(b.Txs[i].Hash))
		}
	}
	m["transactions"] = txs
	return m
}

func logJSON(b *Block, tx *Tx, l *Log) map[string]any {
	tps := make([]any, len(l.Topics))
	for i, t := range l.Topics {
		tps[i] = hexB(t)
	}
	return map[string]any{
		"logIndex": hexU(l.Idx), "address": hexB(l.Addr), "topics": tps, "data": hexB(l.Data),
		"blockNumber": hexU(b.Num), "blockHash": hexB(b.Hash), "transactionHash": hexB(tx.Hash),
		"transactionIndex": hexU(tx.Idx), "removed": false,
	}
}

func receiptJSON(b *Block, tx *Tx) map[string]any {
	logs := make([]any, len(tx.Logs))
	for i := range tx.Logs {
		logs[i] = logJSON(b, tx, &tx.Logs[i])
	}
	return map[string]any{
		"blockHash": hexB(b.Hash), "blockNumber": hexU(b.Num), "transactionHash": hexB(tx.Hash),
		"transactionIndex": hexU(tx.Idx), "type": hexU(uint64(tx.Type)), "from": hexB(tx.From), "to": optB(tx.To),
		"status": hexU(uint64(tx.Status)), "gasUsed": hexU(tx.GasUsed), "cumulativeGasUsed": hexU(tx.GasUsed),
		"effectiveGasPrice": hexBig(tx.EffGasPrice), "logs": logs, "contractAddress": optB(tx.ContractAddr),
		"logsBloom": zeroBloom,
	}
}

func traceJSON(b *Block, tx *Tx, i int, tr *Trace) map[string]any {
	return map[string]any{
		"action":    map[string]any{"from": hexB(tr.From), "to": optB(tr.To), "value": hexBig(tr.Value), "callType": tr.CallType, "gas": "0x5208", "input": "0x"},
		"blockHash": hexB(b.Hash), "blockNumber": b.Num, "transactionHash": hexB(tx.Hash), "transactionPosition": tx.Idx,
		"subtraces": 0, "traceAddress": []any{}, "type": "call", "result": map[string]any{"gasUsed": "0x0", "output": "0x"},
	}
}

func parseHexU(s string) (uint64, bool) {
	if !strings.HasPrefix(s, "0x") {
		return 0, false
	}
	x, err := strconv.ParseUint(s[2:], 16, 64)
	return x, err == nil
}

// LogMatches applies the eth_getLogs address/topics filter.
func LogMatches(l *Log, addrs []string, topics [][]string) bool {
	if len(addrs) > 0 {
		ok := false
		for _, a := range addrs {
			if strings.EqualFold(a, hexB(l.Addr)) {
				ok = true
			}
		}
		if !ok {
			return false
		}
	}
	for i, alts := range topics {
		if len(alts) == 0 {
			continue
		}
		if i >= len(l.Topics) {
			return false
		}
		ok := false
		for _, a := range alts {
			if strings.EqualFold(a, hexB(l.Topics[i])) {
				ok = true
			}
		}
		if !ok {
			return false
		}
	}
	return true
}

// zeroBloom: some chains (zk rollups) report an all-zero logsBloom although the block has logs;
// the bloom is a hint for clients that filter locally, never a statement that there are no logs.
var zeroBloom = "0x" + strings.Repeat("00", 256)

func rpcErr(id any, code int, msg string) map[string]any {
	return map[string]any{"jsonrpc": "2.0", "id": id, "error": map[string]any{"code": code, "message": msg}}
}

// one answers a single JSON-RPC call; records served block versions into sv.
func (n *Node) one(req map[string]any, sv *Served) map[string]any {
	id := req["id"]
	res := map[string]any{"jsonrpc": "2.0", "id": id}
	method, _ := req["method"].(string)
	params, _ := req["params"].([]any)
	n.counts[method]++
	c := n.Chain
	blockArg := func(i int) (*Block, bool) {
		if len(params) <= i {
			return nil, false
		}
		tag, _ := params[i].(string)
		if tag == "latest" {
			return c.Head(), true
		}
		x, ok := parseHexU(tag)
		if !ok {
			return nil, false
		}
		return c.At(x), true
	}
	switch method {
	case "eth_getBlockByNumber":
		b, ok := blockArg(0)
		if !ok {
			return rpcErr(id, -32602, "invalid argument 0")
		}
		full, _ := params[1].(bool)
		if b == nil {
			res["result"] = nil
			return res
		}
		sv.Blocks = append(sv.Blocks, ServedBlock{b.Num, b.Version})
		res["result"] = n.blockJSON(b, full)
	case "eth_getBlockReceipts":
		b, ok := blockArg(0)
		if !ok {
			return rpcErr(id, -32602, "invalid argument 0")
		}
		if b == nil {
			res["result"] = nil
			return res
		}
		sv.Blocks = append(sv.Blocks, ServedBlock{b.Num, b.Version})
		out := make([]any, len(b.Txs))
		for i := range b.Txs {
			if n.ReverseReceipts {
				out[len(b.Txs)-1-i] = receiptJSON(b, &b.Txs[i])
				continue
			}
			out[i] = receiptJSON(b, &b.Txs[i])
		}
		res["result"] = out
	case "eth_getLogs":
		f, _ := params[0].(map[string]any)
		from, ok1 := parseHexU(fmt.Sprint(f["fromBlock"]))
		to, ok2 := parseHexU(fmt.Sprint(f["toBlock"]))
		if !ok1 || !ok2 {
			return rpcErr(id, -32602, "invalid block range")
		}
		var addrs []string
		switch a := f["address"].(type) {
		case string:
			addrs = []string{a}
		case []any:
			for _, x := range a {
				addrs = append(addrs, fmt.Sprint(x))
			}
		}
		var topics [][]string
		if ts, ok := f["topics"].([]any); ok {
			for _, t := range ts {
				switch x := t.(type) {
				case nil:
					topics = append(topics, nil)
				case string:
					topics = append(topics, []string{x})
				case []any:
					var alts []string
					for _, y := range x {
						alts = append(alts, fmt.Sprint(y))
					}
					topics = append(topics, alts)
				}
			}
		}
		n.logFilters = append(n.logFilters, LogFilterSeen{From: from, To: to, Addresses: addrs, Topics: topics})
		out := []any{}
		for num := from; num <= to; num++ {
			b := c.At(num)
			if b == nil {
				break
			}
			sv.Blocks = append(sv.Blocks, ServedBlock{b.Num, b.Version})
			for i := range b.Txs {
				for j := range b.Txs[i].Logs {
					l := &b.Txs[i].Logs[j]
					if n.NoLogFilter || LogMatches(l, addrs, topics) {
						out = append(out, logJSON(b, &b.Txs[i], l))
					}
				}
			}
		}
		res["result"] = out
	case "trace_block":
		b, ok := blockArg(0)
		if !ok {
			return rpcErr(id, -32602, "invalid argument 0")
		}
		if b == nil {
			res["result"] = nil
			return res
		}
		sv.Blocks = append(sv.Blocks, ServedBlock{b.Num, b.Version})
		out := []any{}
		for i := range b.Txs {
			for j := range b.Txs[i].Traces {
				out = append(out, traceJSON(b, &b.Txs[i], j, &b.Txs[i].Traces[j]))
			}
		}
		res["result"] = out
	case "eth_chainId":
		res["result"] = hexU(n.ChainID)
	default:
		return rpcErr(id, -32601, "the method "+method+" does not exist/is not available")
	}
	return res
}

func classify(calls []map[string]any, batch bool) ReqInfo {
	ri := ReqInfo{Kind: "other", N: len(calls)}
	for _, c := range calls {
		m, _ := c["method"].(string)
		ri.Methods = append(ri.Methods, m)
	}
	if len(calls) == 0 {
		return ri
	}
	first := calls[0]
	m, _ := first["method"].(string)
	params, _ := first["params"].([]any)
	arg0 := ""
	if len(params) > 0 {
		arg0, _ = params[0].(string)
	}
	if x, ok := parseHexU(arg0); ok {
		ri.From = x
	}
	switch {
	case m == "eth_getBlockByNumber" && arg0 == "latest":
		ri.Kind = "latest"
	case m == "eth_getBlockByNumber" && !batch:
		ri.Kind = "hash"
	case m == "eth_getBlockByNumber" && len(calls) == 2 && ri.Methods[1] == "eth_getLogs":
		ri.Kind = "logs"
		if f, ok := calls[1]["params"].([]any); ok && len(f) > 0 {
			if fm, ok := f[0].(map[string]any); ok {
				if x, ok := parseHexU(fmt.Sprint(fm["fromBlock"])); ok {
					ri.From = x
				}
			}
		}
	case m == "eth_getBlockByNumber":
		full := false
		if len(params) > 1 {
			full, _ = params[1].(bool)
		}
		if full {
			ri.Kind = "blocks"
		} else {
			ri.Kind = "headers"
		}
	case m == "eth_getBlockReceipts":
		ri.Kind = "receipts"
	case m == "trace_block":
		ri.Kind = "traces"
	}
	return ri
}

// Handle answers one HTTP body. It returns the status, the body, and whether
// the connection must be closed without an answer.
func (n *Node) Handle(body []byte) (status int, out []byte, closeConn bool) {
	n.mu.Lock()
	defer n.mu.Unlock()
	var calls []map[string]any
	batch := false
	trim := strings.TrimSpace(string(body))
	if strings.HasPrefix(trim, "[") {
		batch = true
		if err := json.Unmarshal(body, &calls); err != nil {
			return 400, []byte(`{"jsonrpc":"2.0","id":null,"error":{"code":-32700,"message":"parse error"}}`), false
		}
	} else {
		var single map[string]any
		if err := json.Unmarshal(body, &single); err != nil {
			return 400, []byte(`{"jsonrpc":"2.0","id":null,"error":{"code":-32700,"message":"parse error"}}`), false
		}
		calls = []map[string]any{single}
	}
	ri := classify(calls, batch)
	ri.Seq = n.seq
	n.seq++
	n.counts["http:"+ri.Kind]++
	var fault *Fault
	if n.OnRequest != nil {
		fault = n.OnRequest(n, ri)
	}
	if fault != nil && fault.CloseConn {
		return 0, nil, true
	}
	if fault != nil && fault.Status != 0 && !fault.KeepBody {
		return fault.Status, []byte("upstream error <html>"), false
	}
	sv := Served{Seq: ri.Seq, Kind: ri.Kind}
	var resp any
	answer := func(sv *Served) any {
		if batch {
			arr := make([]any, len(calls))
			for i, c := range calls {
				if i > 0 && fault != nil && fault.Between != nil {
					fault.Between(i)
				}
				arr[i] = n.one(c, sv)
			}
			return arr
		}
		return n.one(calls[0], sv)
	}
	if fault != nil && fault.Lag > 0 {
		// what an up-to-date replica would say (not counted), then the lagging answer
		counts, nf := map[string]int{}, len(n.logFilters)
		for k, v := range n.counts {
			counts[k] = v
		}
		fullJSON, _ := json.Marshal(answer(&Served{}))
		n.counts, n.logFilters = counts, n.logFilters[:nf]
		full := n.Chain
		k := max(1, len(full.Blocks)-fault.Lag)
		n.Chain = &Chain{Blocks: full.Blocks[:k:k]}
		resp = answer(&sv)
		n.Chain = full
		lagJSON, _ := json.Marshal(resp)
		fault.LagHit = string(fullJSON) != string(lagJSON)
	} else {
		resp = answer(&sv)
	}
	if arr, ok := resp.([]any); ok && n.ReverseReceiptBatches && ri.Kind == "receipts" {
		rev := make([]any, len(arr))
		for i := range arr {
			rev[len(arr)-1-i] = arr[i]
		}
		resp = rev
	}
	if n.KeepLog {
		n.served = append(n.served, sv)
	}
	if fault != nil && fault.Mutate != nil {
		// round-trip through JSON so that the mutator sees plain JSON values
		b, _ := json.Marshal(resp)
		var plain any
		json.Unmarshal(b, &plain)
		resp = fault.Mutate(plain)
	}
	out, _ = json.Marshal(resp)
	if fault != nil {
		if fault.BadJSON {
			out = []byte(`{"jsonrpc":"2.0","id":1,"result":{"number":"0x1",,,`)
		}
		if fault.Truncate > 0 && fault.Truncate < len(out) {
			out = out[:fault.Truncate]
		}
	}
	if fault != nil && fault.Status != 0 {
		return fault.Status, out, false
	}
	return 200, out, false
}

// ---- HTTP server shared by all cases of a process ---------------------------

type Server struct {
	ln    net.Listener
	mu    sync.Mutex
	nodes map[string]*Node
	next  int
}

func StartServer() *Server {
	ln, err := net.Listen("tcp", "127.0.0.1:0")
	if err != nil {
		panic(err)
	}
	s := &Server{ln: ln, nodes: map[string]*Node{}}
	go http.Serve(ln, s)
	return s
}

// Attach registers a node and returns its URL. The path never contains the
// substrings jrpc2.New treats specially ("debug", "nocache") unless asked.
func (s *Server) Attach(n *Node, suffix string) string {
	s.mu.Lock()
	defer s.mu.Unlock()
	s.next++
	key := fmt.Sprintf("/n%d%s", s.next, suffix)
	s.nodes[key] = n
	return "http://" + s.ln.Addr().String() + key
}

func (s *Server) Detach(url string) {
	s.mu.Lock()
	defer s.mu.Unlock()
	i := strings.Index(url, "/n")
	if i >= 0 {
		delete(s.nodes, url[i:])
	}
}

func (s *Server) ServeHTTP(w http.ResponseWriter, r *http.Request) {
	s.mu.Lock()
	n := s.nodes[r.URL.Path]
	s.mu.Unlock()
	if n == nil {
		http.Error(w, "no such node", 404)
		return
	}
	body, _ := io.ReadAll(r.Body)
	status, out, closeConn := n.Handle(body)
	if closeConn {
		if hj, ok := w.(http.Hijacker); ok {
			if c, _, err := hj.Hijack(); err == nil {
				c.Close()
				return
			}
		}
		w.WriteHeader(502)
		return
	}
	w.Header().Set("Content-Type", "application/json")
	w.WriteHeader(status)
	w.Write(out)
}
