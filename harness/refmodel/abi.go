package refmodel

// Independent Solidity-ABI model: type trees, values, encoder, canonical
// signature, and the row rule of the declarative decoder. Written from the
// Solidity ABI specification; shares no code with shovel/dig.

import (
	"fmt"
	"math/big"
	"strings"
)

type Kind int

const (
	KUint Kind = iota
	KInt
	KAddress
	KBool
	KBytesN
	KBytes
	KString
	KArray
	KTuple
)

// Type is an ABI type tree. Name/Indexed/Column annotate it when it is used as
// an event input or tuple component.
type Type struct {
	Kind   Kind
	Bits   int     // KUint/KInt: 8..256
	N      int     // KBytesN: 1..32
	Len    int     // KArray: -1 = dynamic length, k >= 1 fixed
	Elem   *Type   // KArray
	Fields []*Type // KTuple

	Name    string
	Indexed bool   // only meaningful for top-level event inputs
	Column  string // non-empty on a selected leaf (or on an array whose base leaf is selected)
}

func (t *Type) IsLeaf() bool { return t.Kind != KArray && t.Kind != KTuple }

// Base returns the innermost non-array type and the array suffixes, outermost last.
func (t *Type) Base() (*Type, []int) {
	var dims []int
	b := t
	for b.Kind == KArray {
		dims = append([]int{b.Len}, dims...)
		b = b.Elem
	}
	return b, dims
}

func elemName(t *Type) string {
	switch t.Kind {
	case KUint:
		return fmt.Sprintf("uint%d", t.Bits)
	case KInt:
		return fmt.Sprintf("int%d", t.Bits)
	case KAddress:
		return "address"
	case KBool:
		return "bool"
	case KBytesN:
		return fmt.Sprintf("bytes%d", t.N)
	case KBytes:
		return "bytes"
	case KString:
		return "string"
	}
	panic("not elementary")
}

func suffix(dims []int) string {
	var s strings.Builder
	for _, d := range dims {
		if d < 0 {
			s.WriteString("[]")
		} else {
			fmt.Fprintf(&s, "[%d]", d)
		}
	}
	return s.String()
}

// TypeString is the ABI-JSON "type" member: elementary name or "tuple", plus array suffixes.
func (t *Type) TypeString() string {
	b, dims := t.Base()
	if b.Kind == KTuple {
		return "tuple" + suffix(dims)
	}
	return elemName(b) + suffix(dims)
}

// Canonical is the canonical signature fragment: tuples are written as
// parenthesised component lists (Solidity ABI spec, "Function Selector").
func (t *Type) Canonical() string {
	b, dims := t.Base()
	if b.Kind == KTuple {
		parts := make([]string, len(b.Fields))
		for i, f := range b.Fields {
			parts[i] = f.Canonical()
		}
		return "(" + strings.Join(parts, ",") + ")" + suffix(dims)
	}
	return elemName(b) + suffix(dims)
}

func (t *Type) IsDynamic() bool {
	switch t.Kind {
	case KBytes, KString:
		return true
	case KArray:
		return t.Len < 0 || t.Elem.IsDynamic()
	case KTuple:
		for _, f := range t.Fields {
			if f.IsDynamic() {
				return true
			}
		}
	}
	return false
}

// Event is an event declaration.
type Event struct {
	Name   string
	Anon   bool
	Inputs []*Type
}

func (e *Event) Signature() string {
	parts := make([]string, len(e.Inputs))
	for i, in := range e.Inputs {
		parts[i] = in.Canonical()
	}
	return e.Name + "(" + strings.Join(parts, ",") + ")"
}

func (e *Event) SigHash() []byte { return Keccak256([]byte(e.Signature())) }

func (e *Event) NumIndexed() int {
	n := 0
	for _, in := range e.Inputs {
		if in.Indexed {
			n++
		}
	}
	return n
}

// JSON renders the event as the ABI-JSON fragment shovel's configuration uses
// (with the "column" annotations of selected leaves).
func (e *Event) JSON() map[string]any {
	ins := make([]any, len(e.Inputs))
	for i, in := range e.Inputs {
		ins[i] = in.inputJSON(true)
	}
	return map[string]any{"name": e.Name, "type": "event", "anonymous": e.Anon, "inputs": ins}
}

func (t *Type) inputJSON(top bool) map[string]any {
	m := map[string]any{"name": t.Name, "type": t.TypeString()}
	if top {
		m["indexed"] = t.Indexed
	}
	if t.Column != "" {
		m["column"] = t.Column
	}
	b, _ := t.Base()
	if b.Kind == KTuple {
		cs := make([]any, len(b.Fields))
		for i, f := range b.Fields {
			cs[i] = f.inputJSON(false)
		}
		m["components"] = cs
	}
	return m
}

// SelectedLeaf describes one selected column of an event in shovel's
// documented order: inputs in declaration order, components depth-first.
type SelectedLeaf struct {
	Column  string
	Leaf    *Type // elementary base type
	Top     *Type // the top-level input it belongs to
	Indexed bool
}

func (e *Event) Selected() []SelectedLeaf {
	var res []SelectedLeaf
	var walk func(top, t *Type)
	walk = func(top, t *Type) {
		b, _ := t.Base()
		if b.Kind == KTuple {
			for _, f := range b.Fields {
				walk(top, f)
			}
		}
		if t.Column != "" {
			res = append(res, SelectedLeaf{Column: t.Column, Leaf: b, Top: top, Indexed: top.Indexed && top == t})
		}
	}
	for _, in := range e.Inputs {
		walk(in, in)
	}
	return res
}

// Value is an ABI value for a Type.
type Value struct {
	T     *Type
	Word  []byte  // 32 bytes, static elementary
	Data  []byte  // bytes/string payload
	Elems []Value // array elements / tuple fields
}

func pad32(n int) int { return (n + 31) / 32 * 32 }

func word(n uint64) []byte {
	w := make([]byte, 32)
	for i := 0; i < 8; i++ {
		w[31-i] = byte(n >> (8 * i))
	}
	return w
}

// Encode returns the ABI encoding enc(v).
func Encode(v Value) []byte {
	switch v.T.Kind {
	case KBytes, KString:
		out := word(uint64(len(v.Data)))
		out = append(out, v.Data...)
		out = append(out, make([]byte, pad32(len(v.Data))-len(v.Data))...)
		return out
	case KArray:
		var out []byte
		if v.T.Len < 0 {
			out = word(uint64(len(v.Elems)))
		}
		return append(out, EncodeSeq(v.Elems)...)
	case KTuple:
		return EncodeSeq(v.Elems)
	default:
		return append([]byte{}, v.Word...)
	}
}

// EncodeSeq encodes a sequence of values with the head/tail layout.
func EncodeSeq(vs []Value) []byte {
	headLen := 0
	for _, v := range vs {
		if v.T.IsDynamic() {
			headLen += 32
		} else {
			headLen += len(Encode(v))
		}
	}
	var head, tail []byte
	for _, v := range vs {
		if v.T.IsDynamic() {
			head = append(head, word(uint64(headLen+len(tail)))...)
			tail = append(tail, Encode(v)...)
		} else {
			head = append(head, Encode(v)...)
		}
	}
	return append(head, tail...)
}

// LogOf builds topics and data for the event with the given input values
// (one Value per input, in declaration order). Indexed inputs must be static
// elementary types (their topic is the value word).
func (e *Event) LogOf(vals []Value) (topics [][]byte, data []byte) {
	if !e.Anon {
		topics = append(topics, e.SigHash())
	}
	var nonIndexed []Value
	for i, in := range e.Inputs {
		if in.Indexed {
			topics = append(topics, append([]byte{}, vals[i].Word...))
		} else {
			nonIndexed = append(nonIndexed, vals[i])
		}
	}
	return topics, EncodeSeq(nonIndexed)
}

// ---- the row rule ---------------------------------------------------------

// hasSelected reports whether any leaf below t is selected.
func hasSelected(t *Type) bool {
	if t.Column != "" {
		return true
	}
	switch t.Kind {
	case KArray:
		// the Column annotation of "T[] column c" sits on the array input itself
		return hasSelected(t.Elem)
	case KTuple:
		for _, f := range t.Fields {
			if hasSelected(f) {
				return true
			}
		}
	}
	return false
}

// innermostArray: no further array below through the element chain.
func innermostArray(t *Type) bool { return t.Kind == KArray && t.Elem.Kind != KArray }

// DataRows applies the row rule to the non-indexed inputs of an event:
// scalars once (broadcast), one row per element of each selected innermost
// array in traversal order, one row when every selected array is empty.
// Each row holds, per selected non-indexed leaf in traversal order, the raw
// bytes the decoder must yield (32-byte word, or the payload of bytes/string;
// nil = empty/absent).
func (e *Event) DataRows(vals []Value) [][][]byte {
	// column positions of non-indexed selected leaves
	pos := map[*Type]int{}
	n := 0
	var number func(t *Type)
	number = func(t *Type) {
		b, _ := t.Base()
		if b.Kind == KTuple {
			for _, f := range b.Fields {
				number(f)
			}
			return
		}
		if t.Column != "" {
			pos[b] = n
			n++
		}
	}
	for _, in := range e.Inputs {
		if !in.Indexed {
			number(in)
		}
	}
	singleton := make([][]byte, n)
	var rows [][][]byte
	// The walk is driven by the declaration's own type tree (t); the value
	// only supplies the data, so values built for a structurally identical
	// declaration (another integration on the same event) can be projected.
	var walk func(t *Type, v Value, selectedHere bool, cur [][]byte) // cur == nil: singleton context
	walk = func(t *Type, v Value, sel bool, cur [][]byte) {
		sel = sel || t.Column != ""
		switch t.Kind {
		case KArray:
			if !sel && !hasSelected(t) {
				return
			}
			for _, el := range v.Elems {
				c := cur
				if innermostArray(t) {
					c = make([][]byte, n)
					rows = append(rows, c)
				}
				walk(t.Elem, el, sel, c)
			}
		case KTuple:
			for i, f := range v.Elems {
				walk(t.Fields[i], f, false, cur)
			}
		default:
			if !sel {
				return
			}
			b := v.Word
			if t.Kind == KBytes || t.Kind == KString {
				b = v.Data
				if len(b) == 0 {
					b = nil
				}
			}
			p, ok := pos[t]
			if !ok {
				panic("selected leaf without position")
			}
			if cur == nil {
				singleton[p] = b
			} else {
				cur[p] = b
			}
		}
	}
	for i, in := range e.Inputs {
		if !in.Indexed {
			walk(in, vals[i], false, nil)
		}
	}
	if len(rows) == 0 {
		rows = append(rows, make([][]byte, n))
	}
	for _, r := range rows {
		for j := range singleton {
			if len(singleton[j]) > 0 {
				r[j] = singleton[j]
			}
		}
	}
	return rows
}

// ---- typed meaning of a decoded cell (the documented type mapping) -------

// Cell is the canonical typed value a column must hold.
//   - *big.Int for uintN/intN (signed via two's complement)
//   - []byte   for address (20 bytes), bytesN (32-byte word), bytes
//   - bool, string
type Cell any

func TypedCell(leaf *Type, raw []byte) Cell {
	switch leaf.Kind {
	case KUint:
		return new(big.Int).SetBytes(raw)
	case KInt:
		x := new(big.Int).SetBytes(raw)
		if len(raw) == 32 && raw[0]&0x80 != 0 {
			x.Sub(x, new(big.Int).Lsh(big.NewInt(1), 256))
		}
		return x
	case KAddress:
		if len(raw) == 32 {
			return append([]byte{}, raw[12:]...)
		}
		return append([]byte{}, raw...)
	case KBool:
		return len(raw) == 32 && raw[31] == 1
	case KString:
		return string(raw)
	default:
		return append([]byte{}, raw...)
	}
}

// EncodeSeqMarked is EncodeSeq plus the byte positions (multiples of 32) of
// every word that a decoder must interpret as an offset or a length.
func EncodeSeqMarked(vs []Value) (data []byte, marks []int) {
	headLen := 0
	for _, v := range vs {
		if v.T.IsDynamic() {
			headLen += 32
		} else {
			headLen += len(Encode(v))
		}
	}
	var head, tail []byte
	var headMarks, tailMarks []int
	for _, v := range vs {
		enc, m := encodeMarked(v)
		if v.T.IsDynamic() {
			headMarks = append(headMarks, len(head))
			head = append(head, word(uint64(headLen+len(tail)))...)
			for _, x := range m {
				tailMarks = append(tailMarks, headLen+len(tail)+x)
			}
			tail = append(tail, enc...)
		} else {
			for _, x := range m {
				headMarks = append(headMarks, len(head)+x)
			}
			head = append(head, enc...)
		}
	}
	return append(head, tail...), append(headMarks, tailMarks...)
}

func encodeMarked(v Value) ([]byte, []int) {
	switch v.T.Kind {
	case KBytes, KString:
		return Encode(v), []int{0}
	case KArray:
		body, m := EncodeSeqMarked(v.Elems)
		if v.T.Len < 0 {
			out := word(uint64(len(v.Elems)))
			marks := []int{0}
			for _, x := range m {
				marks = append(marks, 32+x)
			}
			return append(out, body...), marks
		}
		return body, m
	case KTuple:
		return EncodeSeqMarked(v.Elems)
	default:
		return Encode(v), nil
	}
}

// ArrayDepth is the deepest nesting of arrays in the event's non-indexed inputs.
func (e *Event) ArrayDepth() int {
	var depth func(t *Type) int
	depth = func(t *Type) int {
		switch t.Kind {
		case KArray:
			return 1 + depth(t.Elem)
		case KTuple:
			d := 0
			for _, f := range t.Fields {
				if x := depth(f); x > d {
					d = x
				}
			}
			return d
		}
		return 0
	}
	d := 0
	for _, in := range e.Inputs {
		if !in.Indexed {
			if x := depth(in); x > d {
				d = x
			}
		}
	}
	return d
}

// CloneType deep-copies a type tree; keepCols keeps the Column annotations.
func CloneType(t *Type, keepCols bool) *Type {
	c := *t
	if !keepCols {
		c.Column = ""
	}
	if t.Elem != nil {
		c.Elem = CloneType(t.Elem, keepCols)
	}
	c.Fields = nil
	for _, f := range t.Fields {
		c.Fields = append(c.Fields, CloneType(f, keepCols))
	}
	return &c
}

func CloneEvent(e *Event, keepCols bool) *Event {
	c := &Event{Name: e.Name, Anon: e.Anon}
	for _, in := range e.Inputs {
		c.Inputs = append(c.Inputs, CloneType(in, keepCols))
	}
	return c
}
