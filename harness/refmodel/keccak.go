package refmodel

// Stand-alone Keccak-256 (original Keccak padding 0x01, as used by Ethereum),
// written from the Keccak reference description; shares no code with shovel
// or golang.org/x/crypto.

import "math/bits"

var keccakRC = [24]uint64{
	0x0000000000000001, 0x0000000000008082, 0x800000000000808A, 0x8000000080008000,
	0x000000000000808B, 0x0000000080000001, 0x8000000080008081, 0x8000000000008009,
	0x000000000000008A, 0x0000000000000088, 0x0000000080008009, 0x000000008000000A,
	0x000000008000808B, 0x800000000000008B, 0x8000000000008089, 0x8000000000008003,
	0x8000000000008002, 0x8000000000000080, 0x000000000000800A, 0x800000008000000A,
	0x8000000080008081, 0x8000000000008080, 0x0000000080000001, 0x8000000080008008,
}

var keccakRot = [5][5]int{
	{0, 36, 3, 41, 18},
	{1, 44, 10, 45, 2},
	{62, 6, 43, 15, 61},
	{28, 55, 25, 21, 56},
	{27, 20, 39, 8, 14},
}

func keccakF(a *[5][5]uint64) {
	for round := 0; round < 24; round++ {
		var c, d [5]uint64
		for x := 0; x < 5; x++ {
			c[x] = a[x][0] ^ a[x][1] ^ a[x][2] ^ a[x][3] ^ a[x][4]
		}
		for x := 0; x < 5; x++ {
			d[x] = c[(x+4)%5] ^ bits.RotateLeft64(c[(x+1)%5], 1)
		}
		for x := 0; x < 5; x++ {
			for y := 0; y < 5; y++ {
				a[x][y] ^= d[x]
			}
		}
		var b [5][5]uint64
		for x := 0; x < 5; x++ {
			for y := 0; y < 5; y++ {
				b[y][(2*x+3*y)%5] = bits.RotateLeft64(a[x][y], keccakRot[x][y])
			}
		}
		for x := 0; x < 5; x++ {
			for y := 0; y < 5; y++ {
				a[x][y] = b[x][y] ^ (^b[(x+1)%5][y] & b[(x+2)%5][y])
			}
		}
		a[0][0] ^= keccakRC[round]
	}
}

// Keccak256 returns the 32-byte Keccak-256 digest of data.
func Keccak256(data []byte) []byte {
	const rate = 136
	var a [5][5]uint64
	msg := append([]byte{}, data...)
	msg = append(msg, 0x01)
	for len(msg)%rate != 0 {
		msg = append(msg, 0)
	}
	msg[len(msg)-1] |= 0x80
	for off := 0; off < len(msg); off += rate {
		for i := 0; i < rate/8; i++ {
			var lane uint64
			for j := 0; j < 8; j++ {
				lane |= uint64(msg[off+8*i+j]) << (8 * j)
			}
			a[i%5][i/5] ^= lane
		}
		keccakF(&a)
	}
	out := make([]byte, 0, 32)
	for i := 0; i < 4; i++ {
		lane := a[i%5][i/5]
		for j := 0; j < 8; j++ {
			out = append(out, byte(lane>>(8*j)))
		}
	}
	return out
}
