package refmodel

// Declarative integration model: what a shovel integration declares, its
// configuration JSON, and the reference filter predicate.

import (
	"fmt"
	"bytes"
	"encoding/hex"
	"math/big"
	"strings"
)

type Ref struct {
	Integration string
	Column      string
	Table       string // only for hostile-input tests; validation must overwrite/refuse it
}

type Filter struct {
	Op   string
	Args []string
	Ref  *Ref
}

func (f *Filter) Active() bool { return f != nil && (len(f.Args) > 0 || f.Ref != nil) }

type BlockField struct {
	Name   string
	Column string
	Filter *Filter
}

type Column struct {
	Name string
	Type string
}

type SourceRef struct {
	Name  string
	Start uint64
	Stop  uint64
	// Pad > 0: start and stop are written as quoted decimal strings left-padded with zeros
	// to this width (numbers may come as strings, e.g. from environment variables)
	Pad int
	// OmitZero: a start or stop of 0 is not written at all (the keys are optional)
	OmitZero bool
}

// Decl is one integration declaration.
type Decl struct {
	Name      string
	Enabled   bool
	Table     string
	Columns   []Column
	Unique    [][]string
	Index     [][]string
	Event     *Event            // nil or without selected inputs: transaction/trace indexing
	Filters   map[*Type]*Filter // filters on (selected) event inputs, keyed by the input's type node
	Block     []BlockField
	FilterAgg string // "", "and", "or"
	Notify    []string
	Sources   []SourceRef
}

func (d *Decl) HasSelectedInputs() bool { return d.Event != nil && len(d.Event.Selected()) > 0 }

// Kind follows shovel's documentation: trace fields -> trace indexing, else
// selected event inputs -> log indexing, else transaction indexing.
func (d *Decl) Kind() string {
	for _, b := range d.Block {
		// (a trace field under any column name: shovel adds the trace_action_idx column itself;
		// a column named trace_* switches dig to trace indexing whatever field it holds)
		if strings.HasPrefix(b.Name, "trace_") || strings.HasPrefix(b.Column, "trace_") {
			return "trace"
		}
	}
	if d.HasSelectedInputs() {
		return "log"
	}
	return "tx"
}

func (d *Decl) Agg() string {
	if strings.ToLower(d.FilterAgg) == "and" {
		return "and"
	}
	return "or"
}

func filterJSON(m map[string]any, f *Filter) {
	if f == nil {
		return
	}
	if f.Op != "" {
		m["filter_op"] = f.Op
	}
	if len(f.Args) > 0 {
		m["filter_arg"] = f.Args
	}
	if f.Ref != nil {
		r := map[string]any{"integration": f.Ref.Integration, "column": f.Ref.Column}
		if f.Ref.Table != "" {
			r["table"] = f.Ref.Table
		}
		m["filter_ref"] = r
	}
}

// JSON renders the integration in shovel's configuration format.
func (d *Decl) JSON() map[string]any {
	cols := make([]any, len(d.Columns))
	for i, c := range d.Columns {
		cols[i] = map[string]any{"name": c.Name, "type": c.Type}
	}
	table := map[string]any{"name": d.Table, "columns": cols}
	if d.Unique != nil {
		table["unique"] = d.Unique
	}
	if d.Index != nil {
		table["index"] = d.Index
	}
	m := map[string]any{"name": d.Name, "enabled": d.Enabled, "table": table}
	if d.FilterAgg != "" {
		m["filter_agg"] = d.FilterAgg
	}
	if len(d.Notify) > 0 {
		m["notification"] = map[string]any{"columns": d.Notify}
	}
	var block []any
	for _, b := range d.Block {
		bm := map[string]any{"name": b.Name, "column": b.Column}
		filterJSON(bm, b.Filter)
		block = append(block, bm)
	}
	if block != nil {
		m["block"] = block
	}
	if d.Event != nil {
		ev := d.Event.JSON()
		// attach input filters
		var attach func(t *Type, jm map[string]any)
		attach = func(t *Type, jm map[string]any) {
			filterJSON(jm, d.Filters[t])
			b, _ := t.Base()
			if b.Kind == KTuple {
				comps, _ := jm["components"].([]any)
				for i, f := range b.Fields {
					if i < len(comps) {
						attach(f, comps[i].(map[string]any))
					}
				}
			}
		}
		ins := ev["inputs"].([]any)
		for i, in := range d.Event.Inputs {
			attach(in, ins[i].(map[string]any))
		}
		m["event"] = ev
	}
	var srcs []any
	for _, s := range d.Sources {
		if s.Pad > 0 {
			srcs = append(srcs, map[string]any{"name": s.Name, "start": fmt.Sprintf("%0*d", s.Pad, s.Start), "stop": fmt.Sprintf("%0*d", s.Pad, s.Stop)})
			continue
		}
		if s.OmitZero {
			m := map[string]any{"name": s.Name}
			if s.Start != 0 {
				m["start"] = s.Start
			}
			if s.Stop != 0 {
				m["stop"] = s.Stop
			}
			srcs = append(srcs, m)
			continue
		}
		srcs = append(srcs, map[string]any{"name": s.Name, "start": s.Start, "stop": s.Stop})
	}
	m["sources"] = srcs
	return m
}

func decodeHexArg(s string) []byte {
	s = strings.TrimPrefix(strings.TrimPrefix(s, "0x"), "0X")
	if len(s)%2 == 1 {
		s = "0" + s
	}
	b, _ := hex.DecodeString(s)
	return b
}

// Accepts evaluates one filter on a typed cell value. lookup answers
// membership of a byte string in the referenced integration's column.
// ok=false means the filter does not apply to this value kind (no verdict).
func (f *Filter) Accepts(v Cell, lookup func(ref *Ref, val []byte) bool) (verdict, ok bool) {
	if !f.Active() {
		return false, false
	}
	switch x := v.(type) {
	case []byte:
		switch f.Op {
		case "contains", "!contains":
			res := false
			if f.Ref != nil {
				res = lookup(f.Ref, x)
			} else {
				for _, a := range f.Args {
					if bytes.Contains(x, decodeHexArg(a)) {
						res = true
					}
				}
			}
			if f.Op == "!contains" {
				res = !res
			}
			return res, true
		case "eq", "ne":
			res := false
			for _, a := range f.Args {
				if bytes.Equal(x, decodeHexArg(a)) {
					res = true
				}
			}
			if f.Op == "ne" {
				res = !res
			}
			return res, true
		}
	case string:
		in := false
		for _, a := range f.Args {
			if a == x {
				in = true
			}
		}
		switch f.Op {
		case "contains":
			return in, true
		case "!contains":
			return !in, true
		case "eq":
			return len(f.Args) > 0 && x == f.Args[0], true
		case "ne":
			return len(f.Args) > 0 && x != f.Args[0], true
		}
	case *big.Int:
		if len(f.Args) == 0 {
			return false, false
		}
		a, good := new(big.Int).SetString(f.Args[0], 10)
		if !good {
			return false, false
		}
		c := x.Cmp(a)
		switch f.Op {
		case "eq":
			return c == 0, true
		case "ne":
			return c != 0, true
		case "gt":
			return c > 0, true
		case "lt":
			return c < 0, true
		}
	}
	return false, false
}

// Fold combines per-field verdicts with the declared aggregation; no verdicts
// accepts everything.
func Fold(agg string, verdicts []bool) bool {
	if len(verdicts) == 0 {
		return true
	}
	res := verdicts[0]
	for _, v := range verdicts[1:] {
		if agg == "and" {
			res = res && v
		} else {
			res = res || v
		}
	}
	return res
}

// WithRequired returns a copy of d with the fields shovel's documentation says
// are always present: ig_name, src_name, block_num, tx_idx for every
// integration; log_idx for log indexing; abi_idx when a non-indexed input is
// selected; trace_action_idx when trace fields are selected.
func (d *Decl) WithRequired() *Decl {
	c := *d
	c.Block = append([]BlockField{}, d.Block...)
	c.Columns = append([]Column{}, d.Columns...)
	has := func(name string) bool {
		for _, b := range c.Block {
			if b.Name == name {
				return true
			}
		}
		return false
	}
	hasCol := func(name string) bool {
		for _, col := range c.Columns {
			if col.Name == name {
				return true
			}
		}
		return false
	}
	add := func(name, typ string) {
		if !has(name) {
			c.Block = append(c.Block, BlockField{Name: name, Column: name})
		}
		if !hasCol(name) {
			c.Columns = append(c.Columns, Column{Name: name, Type: typ})
		}
	}
	add("ig_name", "text")
	add("src_name", "text")
	add("block_num", "numeric")
	add("tx_idx", "int")
	if d.HasSelectedInputs() {
		add("log_idx", "int")
		for _, s := range d.Event.Selected() {
			if !s.Indexed {
				add("abi_idx", "int2")
			}
		}
	}
	for _, b := range d.Block {
		if strings.HasPrefix(b.Name, "trace_") {
			add("trace_action_idx", "int2")
		}
	}
	return &c
}
