package fakepg

import "github.com/jackc/pgx/v5/pgtype"

// ApplyShovelSchema creates the shovel.* tables and indexes that shovel's
// embedded schema.sql ends up with on a fresh database (idempotent).
func (db *DB) ApplyShovelSchema() {
	db.mu.Lock()
	defer db.mu.Unlock()
	mk := func(name string, cols ...Col) *Table {
		if t, ok := db.tables[name]; ok {
			return t
		}
		t := &Table{Name: name, Cols: cols}
		db.tables[name] = t
		return t
	}
	c := func(n, typ string) Col { return Col{Name: n, Type: typ, OID: typeOIDs[typ]} }
	mk("shovel.integrations", c("name", "text"), c("conf", "jsonb"))
	mk("shovel.ig_updates", c("name", "text"), c("src_name", "text"), c("backfill", "bool"), c("num", "numeric"), c("latency", "interval"), c("nrows", "numeric"), c("stop", "numeric"))
	src := mk("shovel.sources", c("name", "text"), c("chain_id", "int"), c("url", "text"))
	if len(src.Indexes) == 0 {
		src.Indexes = append(src.Indexes, Index{Name: "sources_name_chain_id_idx", Cols: []string{"name", "chain_id"}, Unique: true},
			Index{Name: "sources_name_idx", Cols: []string{"name"}, Unique: true})
	}
	tu := mk("shovel.task_updates", c("num", "numeric"), c("hash", "bytea"), c("insert_at", "timestamptz"), c("src_hash", "bytea"), c("src_num", "numeric"),
		c("nblocks", "numeric"), c("nrows", "numeric"), c("latency", "interval"), c("src_name", "text"), c("stop", "numeric"), c("chain_id", "int"), c("ig_name", "text"))
	if len(tu.Indexes) == 0 {
		tu.Indexes = append(tu.Indexes, Index{Name: "task_src_name_num_idx", Cols: []string{"ig_name", "src_name", "num"}, Unique: true})
	}
	_ = pgtype.TextOID
}
