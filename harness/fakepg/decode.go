package fakepg

import (
	"fmt"
	"math/big"
	"time"

	"github.com/jackc/pgx/v5/pgtype"
)

const textArrayOID = 1009

func sleepMs(n int) { time.Sleep(time.Duration(n) * time.Millisecond) }

// decodeValue turns a wire value (parameter or COPY field) into the canonical
// Go value stored in the fake: string (text), []byte (bytea, json), *big.Int
// (numeric), int64 (intN, interval in microseconds), bool, []string (text[]),
// time.Time. nil means SQL NULL.
func decodeValue(tm *pgtype.Map, oid uint32, format int16, raw []byte) (any, error) {
	if raw == nil {
		return nil, nil
	}
	switch oid {
	case pgtype.TextOID, pgtype.VarcharOID, pgtype.NameOID, 0, pgtype.UnknownOID:
		return string(raw), nil
	case pgtype.ByteaOID:
		var b []byte
		if err := tm.Scan(oid, format, raw, &b); err != nil {
			return nil, err
		}
		return append([]byte{}, b...), nil
	case pgtype.NumericOID:
		var n pgtype.Numeric
		if err := tm.Scan(oid, format, raw, &n); err != nil {
			return nil, err
		}
		if !n.Valid {
			return nil, nil
		}
		if n.NaN || n.InfinityModifier != 0 {
			return nil, fmt.Errorf("numeric NaN/Inf not supported")
		}
		x := new(big.Int).Set(n.Int)
		if n.Exp > 0 {
			x.Mul(x, new(big.Int).Exp(big.NewInt(10), big.NewInt(int64(n.Exp)), nil))
		} else if n.Exp < 0 {
			d := new(big.Int).Exp(big.NewInt(10), big.NewInt(int64(-n.Exp)), nil)
			q, r := new(big.Int).QuoRem(x, d, new(big.Int))
			if r.Sign() != 0 {
				return nil, fmt.Errorf("fractional numeric not supported by the fake")
			}
			x = q
		}
		return x, nil
	case pgtype.Int2OID, pgtype.Int4OID, pgtype.Int8OID:
		var n int64
		if err := tm.Scan(oid, format, raw, &n); err != nil {
			return nil, err
		}
		switch oid {
		case pgtype.Int2OID:
			if n < -32768 || n > 32767 {
				return nil, &PgError{Code: "22003", Msg: "smallint out of range"}
			}
		case pgtype.Int4OID:
			if n < -2147483648 || n > 2147483647 {
				return nil, &PgError{Code: "22003", Msg: "integer out of range"}
			}
		}
		return n, nil
	case pgtype.BoolOID:
		var b bool
		if err := tm.Scan(oid, format, raw, &b); err != nil {
			return nil, err
		}
		return b, nil
	case pgtype.JSONBOID, pgtype.JSONOID:
		var b []byte
		if err := tm.Scan(oid, format, raw, &b); err != nil {
			return nil, err
		}
		return append([]byte{}, b...), nil
	case pgtype.IntervalOID:
		var iv pgtype.Interval
		if err := tm.Scan(oid, format, raw, &iv); err != nil {
			return nil, err
		}
		return iv.Microseconds + int64(iv.Days)*86400_000_000 + int64(iv.Months)*30*86400_000_000, nil
	case pgtype.TimestamptzOID:
		var t time.Time
		if err := tm.Scan(oid, format, raw, &t); err != nil {
			return nil, err
		}
		return t, nil
	case textArrayOID:
		var ss []string
		if err := tm.Scan(oid, format, raw, &ss); err != nil {
			return nil, err
		}
		return ss, nil
	}
	return nil, fmt.Errorf("fakepg: unsupported type oid %d", oid)
}

// encodeValue renders a canonical value for a result column.
func encodeValue(tm *pgtype.Map, oid uint32, format int16, v any) ([]byte, error) {
	if v == nil {
		return nil, nil
	}
	switch x := v.(type) {
	case *big.Int:
		v = pgtype.Numeric{Int: x, Valid: true}
	case int64:
		if oid == pgtype.IntervalOID {
			v = pgtype.Interval{Microseconds: x, Valid: true}
		}
	}
	return tm.Encode(oid, format, v, nil)
}
