package fakepg

import (
	"bytes"
	"encoding/binary"
	"fmt"
	"net"
	"sync"

	"github.com/jackc/pgx/v5/pgproto3"
	"github.com/jackc/pgx/v5/pgtype"
)

// Script is an exact-text statement (after Norm) registered by the harness,
// e.g. shovel's embedded schema.sql or the dashboard's read queries.
type Script struct {
	Tag    string
	Params []uint32
	Fields []ScriptField
	Run    func(db *DB) error
}

type ScriptField struct {
	Name string
	OID  uint32
}

type Server struct {
	ln      net.Listener
	mu      sync.Mutex
	dbs     map[string]*DB
	scripts map[string]Script
}

// Start opens a listener on the loopback interface.
func Start() *Server {
	ln, err := net.Listen("tcp", "127.0.0.1:0")
	if err != nil {
		panic(err)
	}
	s := &Server{ln: ln, dbs: map[string]*DB{}, scripts: map[string]Script{}}
	go func() {
		for {
			c, err := ln.Accept()
			if err != nil {
				return
			}
			go s.serve(c)
		}
	}()
	return s
}

func (s *Server) Close() { s.ln.Close() }

func (s *Server) Addr() string { return s.ln.Addr().String() }

// URL is the connection string of database name.
func (s *Server) URL(name string) string {
	return fmt.Sprintf("postgres://u@%s/%s?sslmode=disable", s.ln.Addr().String(), name)
}

func (s *Server) NewDB(name string) *DB {
	db := newDB(name)
	db.server = s
	s.mu.Lock()
	s.dbs[name] = db
	s.mu.Unlock()
	return db
}

func (s *Server) DropDB(name string) {
	s.mu.Lock()
	db := s.dbs[name]
	delete(s.dbs, name)
	s.mu.Unlock()
	if db != nil {
		db.KillAll()
	}
}

func (s *Server) RegisterScript(sql string, sc Script) {
	s.mu.Lock()
	s.scripts[Norm(sql)] = sc
	s.mu.Unlock()
}

func (s *Server) script(n string) (Script, bool) {
	s.mu.Lock()
	defer s.mu.Unlock()
	sc, ok := s.scripts[n]
	return sc, ok
}

type prepared struct {
	p *plan
}

type portal struct {
	p      *plan
	args   []any
	resfmt []int16
	err    *PgError
}

type session struct {
	db   *DB
	id   int
	conn net.Conn
	be   *pgproto3.Backend
	tm   *pgtype.Map
	app  string
	tx   *txState

	stmts   map[string]*prepared
	portals map[string]*portal
}

func fmtAt(f []int16, i int) int16 {
	switch len(f) {
	case 0:
		return 0
	case 1:
		return f[0]
	default:
		return f[i]
	}
}

func (srv *Server) serve(c net.Conn) {
	defer c.Close()
	be := pgproto3.NewBackend(c, c)
	var dbname string
	for {
		m, err := be.ReceiveStartupMessage()
		if err != nil {
			return
		}
		switch m := m.(type) {
		case *pgproto3.SSLRequest:
			if _, err := c.Write([]byte("N")); err != nil {
				return
			}
			continue
		case *pgproto3.StartupMessage:
			dbname = m.Parameters["database"]
		default:
			return
		}
		break
	}
	srv.mu.Lock()
	db := srv.dbs[dbname]
	srv.mu.Unlock()
	if db == nil {
		be.Send(&pgproto3.ErrorResponse{Severity: "FATAL", Code: "3D000", Message: fmt.Sprintf("database %q does not exist", dbname)})
		be.Flush()
		return
	}
	be.Send(&pgproto3.AuthenticationOk{})
	be.Send(&pgproto3.ParameterStatus{Name: "server_version", Value: "14.2"})
	be.Send(&pgproto3.ParameterStatus{Name: "client_encoding", Value: "UTF8"})
	be.Send(&pgproto3.ParameterStatus{Name: "standard_conforming_strings", Value: "on"})
	be.Send(&pgproto3.ParameterStatus{Name: "integer_datetimes", Value: "on"})
	be.Send(&pgproto3.BackendKeyData{ProcessID: 1, SecretKey: 1})
	be.Send(&pgproto3.ReadyForQuery{TxStatus: 'I'})
	if be.Flush() != nil {
		return
	}
	ss := &session{db: db, conn: c, be: be, tm: pgtype.NewMap(), stmts: map[string]*prepared{}, portals: map[string]*portal{}}
	db.mu.Lock()
	db.connN++
	ss.id = db.connN
	db.sessions[ss.id] = ss
	db.mu.Unlock()
	defer ss.gone()
	ss.loop()
}

// gone: the connection ended; an open transaction is rolled back.
func (ss *session) gone() {
	db := ss.db
	db.mu.Lock()
	delete(db.sessions, ss.id)
	had := ss.tx != nil
	ss.tx = nil
	db.event(ss.id, "disconnect", "", nil, "")
	if had && db.OnAbort != nil {
		db.OnAbort(db, ss.id, "disconnect")
	}
	db.mu.Unlock()
}

type dropConn struct{}

func (ss *session) txStatus() byte {
	ss.db.mu.Lock()
	defer ss.db.mu.Unlock()
	switch {
	case ss.tx == nil:
		return 'I'
	case ss.tx.failed:
		return 'E'
	}
	return 'T'
}

func (ss *session) ready() bool {
	ss.be.Send(&pgproto3.ReadyForQuery{TxStatus: ss.txStatus()})
	return ss.be.Flush() == nil
}

func (ss *session) sendErr(e *PgError) {
	ss.db.mu.Lock()
	if ss.tx != nil {
		ss.tx.failed = true
	}
	ss.db.event(ss.id, "error", "", nil, e.Error())
	ss.db.mu.Unlock()
	ss.be.Send(&pgproto3.ErrorResponse{Severity: "ERROR", Code: e.Code, Message: e.Msg})
}

// fault consults the fault plan for one eligible operation.
func (ss *session) fault(kind OpKind, sql string) Fault {
	db := ss.db
	db.mu.Lock()
	op := Op{Seq: db.opSeq, Kind: kind, Conn: ss.id, SQL: sql}
	db.opSeq++
	ff, obs := db.Fault, db.OnOp
	db.mu.Unlock()
	var f Fault
	if ff != nil {
		f = ff(op)
	}
	if obs != nil {
		obs(op, f)
	}
	return f
}

func (ss *session) inFailedTx() bool {
	ss.db.mu.Lock()
	defer ss.db.mu.Unlock()
	return ss.tx != nil && ss.tx.failed
}

// execPlan runs a plan with fault handling. Returns false when the connection
// must be dropped.
func (ss *session) execPlan(p *plan, args []any, resfmt []int16, describeRow bool) (alive, errored bool) {
	if ss.inFailedTx() && p.kind != "rollback" && p.kind != "commit" {
		ss.sendErr(pgerr("25P02", "current transaction is aborted, commands ignored until end of transaction block"))
		return true, true
	}
	f := ss.fault(p.op, p.sql)
	switch f.Kind {
	case ErrReply:
		code := f.Code
		if code == "" {
			code = "57014"
		}
		if p.kind == "commit" || p.kind == "rollback" {
			// PostgreSQL: a COMMIT that fails ends the transaction (rolled back); the
			// session is idle afterwards, never "still in the transaction"
			ss.rollback("failed " + p.kind)
		}
		ss.sendErr(pgerr(code, "injected fault at %s", p.kind))
		return true, true
	case DropBefore:
		return false, false
	}
	if p.kind == "copy" {
		return ss.copyIn(p, f)
	}
	ss.db.mu.Lock()
	ss.db.event(ss.id, "exec", p.sql, args, "")
	ss.db.mu.Unlock()
	tag, rows, err := p.run(ss, args)
	if f.Kind == DropAfter {
		return false, false
	}
	if err != nil {
		ss.sendErr(err)
		return true, true
	}
	if describeRow && len(p.fields) > 0 {
		ss.be.Send(ss.rowDesc(p, resfmt))
	}
	for _, r := range rows {
		vals := make([][]byte, len(r))
		for i, v := range r {
			b, e := encodeValue(ss.tm, p.fields[i].oid, fmtAt(resfmt, i), v)
			if e != nil {
				ss.sendErr(pgerr("XX000", "fakepg encode: %v", e))
				return true, true
			}
			vals[i] = b
		}
		ss.be.Send(&pgproto3.DataRow{Values: vals})
	}
	ss.be.Send(&pgproto3.CommandComplete{CommandTag: []byte(tag)})
	return true, false
}

func (ss *session) rowDesc(p *plan, resfmt []int16) *pgproto3.RowDescription {
	fs := make([]pgproto3.FieldDescription, len(p.fields))
	for i, f := range p.fields {
		fs[i] = pgproto3.FieldDescription{Name: []byte(f.name), DataTypeOID: f.oid, DataTypeSize: -1, TypeModifier: -1, Format: fmtAt(resfmt, i)}
	}
	return &pgproto3.RowDescription{Fields: fs}
}

func (ss *session) skipToSync() bool {
	for {
		m, err := ss.be.Receive()
		if err != nil {
			return false
		}
		if _, ok := m.(*pgproto3.Sync); ok {
			return ss.ready()
		}
		if _, ok := m.(*pgproto3.Terminate); ok {
			return false
		}
	}
}

func (ss *session) recordSQL(kind, sql string) {
	db := ss.db
	db.mu.Lock()
	if db.KeepSQL {
		db.sqlTexts = append(db.sqlTexts, sql)
	}
	db.event(ss.id, kind, sql, nil, "")
	db.mu.Unlock()
}

func (ss *session) loop() {
	be := ss.be
	for {
		m, err := be.Receive()
		if err != nil {
			return
		}
		switch m := m.(type) {
		case *pgproto3.Query:
			ss.recordSQL("sql", m.String)
			stmts := splitStatements(m.String)
			if len(stmts) == 0 {
				be.Send(&pgproto3.EmptyQueryResponse{})
			}
			// a registered script is matched on the whole text
			if _, ok := ss.db.server.script(Norm(m.String)); ok {
				stmts = []string{m.String}
			}
			for _, st := range stmts {
				p, perr := ss.planFor(st)
				if perr != nil {
					ss.sendErr(perr)
					break
				}
				alive, errored := ss.execPlan(p, nil, nil, true)
				if !alive {
					return
				}
				if errored {
					break
				}
			}
			if !ss.ready() {
				return
			}
		case *pgproto3.Parse:
			ss.recordSQL("parse", m.Query)
			p, perr := ss.planFor(m.Query)
			if perr != nil {
				ss.sendErr(perr)
				if !ss.skipToSync() {
					return
				}
				continue
			}
			ss.stmts[m.Name] = &prepared{p: p}
			be.Send(&pgproto3.ParseComplete{})
		case *pgproto3.Describe:
			switch m.ObjectType {
			case 'S':
				st := ss.stmts[m.Name]
				if st == nil {
					ss.sendErr(pgerr("26000", "prepared statement %q does not exist", m.Name))
					if !ss.skipToSync() {
						return
					}
					continue
				}
				be.Send(&pgproto3.ParameterDescription{ParameterOIDs: st.p.params})
				if len(st.p.fields) == 0 {
					be.Send(&pgproto3.NoData{})
				} else {
					be.Send(ss.rowDesc(st.p, nil))
				}
			case 'P':
				po := ss.portals[m.Name]
				if po == nil {
					ss.sendErr(pgerr("34000", "portal %q does not exist", m.Name))
					if !ss.skipToSync() {
						return
					}
					continue
				}
				if len(po.p.fields) == 0 {
					be.Send(&pgproto3.NoData{})
				} else {
					be.Send(ss.rowDesc(po.p, po.resfmt))
				}
			}
		case *pgproto3.Bind:
			st := ss.stmts[m.PreparedStatement]
			if st == nil {
				ss.sendErr(pgerr("26000", "prepared statement %q does not exist", m.PreparedStatement))
				if !ss.skipToSync() {
					return
				}
				continue
			}
			po := &portal{p: st.p, resfmt: append([]int16(nil), m.ResultFormatCodes...)}
			if len(m.Parameters) != len(st.p.params) {
				po.err = pgerr("08P01", "bind message supplies %d parameters, but prepared statement requires %d", len(m.Parameters), len(st.p.params))
			}
			for i, raw := range m.Parameters {
				if po.err != nil {
					break
				}
				v, e := decodeValue(ss.tm, st.p.params[i], fmtAt(m.ParameterFormatCodes, i), raw)
				if e != nil {
					if pe, ok := e.(*PgError); ok {
						po.err = pe
					} else {
						po.err = pgerr("22P02", "invalid input for parameter $%d: %v", i+1, e)
					}
					break
				}
				po.args = append(po.args, v)
			}
			if po.err != nil {
				ss.sendErr(po.err)
				if !ss.skipToSync() {
					return
				}
				continue
			}
			ss.portals[m.DestinationPortal] = po
			be.Send(&pgproto3.BindComplete{})
		case *pgproto3.Execute:
			po := ss.portals[m.Portal]
			if po == nil {
				ss.sendErr(pgerr("34000", "portal %q does not exist", m.Portal))
				if !ss.skipToSync() {
					return
				}
				continue
			}
			alive, errored := ss.execPlan(po.p, po.args, po.resfmt, false)
			if !alive {
				return
			}
			if errored {
				if !ss.skipToSync() {
					return
				}
			}
		case *pgproto3.Sync:
			if !ss.ready() {
				return
			}
		case *pgproto3.Terminate:
			return
		case *pgproto3.Close:
			switch m.ObjectType {
			case 'S':
				delete(ss.stmts, m.Name)
			case 'P':
				delete(ss.portals, m.Name)
			}
			be.Send(&pgproto3.CloseComplete{})
		case *pgproto3.Flush:
			if be.Flush() != nil {
				return
			}
		default:
			ss.sendErr(pgerr("0A000", "unhandled message %T", m))
		}
	}
}

// copyIn serves COPY table (cols) FROM STDIN BINARY.
func (ss *session) copyIn(p *plan, startFault Fault) (alive, errored bool) {
	fc := make([]uint16, len(p.copyCols))
	for i := range fc {
		fc[i] = 1
	}
	ss.be.Send(&pgproto3.CopyInResponse{OverallFormat: 1, ColumnFormatCodes: fc})
	if ss.be.Flush() != nil {
		return false, false
	}
	var buf bytes.Buffer
	for {
		msg, err := ss.be.Receive()
		if err != nil {
			return false, false
		}
		switch msg := msg.(type) {
		case *pgproto3.CopyData:
			buf.Write(msg.Data)
			continue
		case *pgproto3.CopyDone:
		case *pgproto3.CopyFail:
			ss.sendErr(pgerr("57014", "COPY from stdin failed: %s", msg.Message))
			return true, true
		case *pgproto3.Flush, *pgproto3.Sync:
			continue
		default:
			ss.sendErr(pgerr("08P01", "unexpected message %T during COPY", msg))
			return true, true
		}
		break
	}
	f := ss.fault(OpCopyEnd, p.sql)
	switch f.Kind {
	case ErrReply:
		code := f.Code
		if code == "" {
			code = "57014"
		}
		ss.sendErr(pgerr(code, "injected fault at copy-done"))
		return true, true
	case DropBefore:
		return false, false
	}
	if startFault.Kind == DropAfter {
		f = startFault
	}
	n, perr := ss.copyApply(p, buf.Bytes())
	if f.Kind == DropAfter {
		return false, false
	}
	if perr != nil {
		ss.sendErr(perr)
		return true, true
	}
	ss.be.Send(&pgproto3.CommandComplete{CommandTag: []byte(fmt.Sprintf("COPY %d", n))})
	return true, false
}

func (ss *session) copyApply(p *plan, b []byte) (int, *PgError) {
	db := ss.db
	db.mu.Lock()
	defer db.mu.Unlock()
	t := db.tables[p.copyTable]
	if t == nil {
		return 0, pgerr("42P01", "relation %q does not exist", p.copyTable)
	}
	if len(b) < 19 {
		return 0, pgerr("22P04", "COPY file signature not recognized")
	}
	b = b[19:]
	var rows []*Row
	for len(b) >= 2 {
		nf := int16(binary.BigEndian.Uint16(b))
		b = b[2:]
		if nf == -1 {
			break
		}
		if int(nf) != len(p.copyCols) {
			return 0, pgerr("22P04", "row field count is %d, expected %d", nf, len(p.copyCols))
		}
		r := &Row{ID: db.nextRow, Vals: make([]any, len(t.Cols))}
		db.nextRow++
		for i := 0; i < int(nf); i++ {
			if len(b) < 4 {
				return 0, pgerr("22P04", "unexpected EOF in COPY data")
			}
			l := int32(binary.BigEndian.Uint32(b))
			b = b[4:]
			if l == -1 {
				continue
			}
			if int(l) > len(b) {
				return 0, pgerr("22P04", "unexpected EOF in COPY data")
			}
			raw := b[:l]
			b = b[l:]
			ci := t.ColIdx(p.copyCols[i])
			v, err := decodeValue(ss.tm, t.Cols[ci].OID, 1, raw)
			if err != nil {
				if pe, ok := err.(*PgError); ok {
					return 0, pe
				}
				return 0, pgerr("22P03", "incorrect binary data format for column %q: %v", p.copyCols[i], err)
			}
			r.Vals[ci] = v
		}
		rows = append(rows, r)
	}
	db.event(ss.id, "copy", p.sql, nil, fmt.Sprintf("%d rows", len(rows)))
	if len(rows) == 0 {
		if ss.tx != nil {
			ss.tx.wrote = true
		}
		return 0, nil
	}
	if err := ss.insertRowsLocked(p.copyTable, rows); err != nil {
		return 0, err
	}
	return len(rows), nil
}
