package fakepg

import (
	"fmt"
	"math/big"
	"regexp"
	"sort"
	"strings"

	"github.com/jackc/pgx/v5/pgtype"
)

type PgError struct {
	Code string
	Msg  string
}

func (e *PgError) Error() string { return fmt.Sprintf("%s (SQLSTATE %s)", e.Msg, e.Code) }

func pgerr(code, f string, a ...any) *PgError { return &PgError{Code: code, Msg: fmt.Sprintf(f, a...)} }

type field struct {
	name string
	oid  uint32
}

type plan struct {
	kind   string
	sql    string
	params []uint32
	fields []field
	op     OpKind
	run    func(s *session, args []any) (tag string, rows [][]any, err *PgError)

	copyTable string
	copyCols  []string
}

var wsRe = regexp.MustCompile(`\s+`)

// Norm collapses whitespace and strips a trailing semicolon.
func Norm(q string) string {
	q = strings.TrimSpace(wsRe.ReplaceAllString(q, " "))
	q = strings.TrimSpace(strings.TrimSuffix(q, ";"))
	return q
}

const (
	qLatest = `select num, hash from shovel.task_updates where src_name = $1 and ig_name = $2 order by num desc limit 1`
	qDep    = `with latest as ( select distinct on (ig_name) ig_name, num, hash from shovel.task_updates where src_name = $1 and ig_name = ANY($2) order by ig_name, num desc ) select num, hash from latest order by num asc limit 1`
	qInsert = `insert into shovel.task_updates ( chain_id, src_name, ig_name, num, hash, src_num, src_hash, stop, nblocks, nrows, latency ) values ($1, $2, $3, $4, $5, $6, $7, $8, $9, $10, $11)`
	qDelTU  = `delete from shovel.task_updates where src_name = $1 and ig_name = $2 and num >= $3`
	qInfo   = `select column_name, data_type from information_schema.columns where table_schema = 'public' and table_name = $1`
	qIgs    = `select conf from shovel.integrations`
	qSrcs   = `select name, chain_id, url from shovel.sources`
	qInsIg  = `insert into shovel.integrations(name, conf) values ($1, $2)`
	qInsSrc = `insert into shovel.sources(chain_id, name, url) values ($1, $2, $3)`
	qLock   = `select pg_advisory_xact_lock($1)`
	qPrune  = `delete from shovel.task_updates where (src_name, ig_name, num) not in ( select src_name, ig_name, num from ( select src_name, ig_name, num, row_number() over(partition by src_name, ig_name order by num desc) as rn from shovel.task_updates ) as s where rn <= $1 )`
)

const identPat = `(?:[\pL_][\pL\pN_$]*|"[^"]+")`

var (
	setAppRe  = regexp.MustCompile(`^set application_name = '([^']*)'$`)
	delRe     = regexp.MustCompile(`^delete from (` + identPat + `) where src_name = \$1 and ig_name = \$2 and block_num >= \$3$`)
	refRe     = regexp.MustCompile(`^select true from (` + identPat + `) where (` + identPat + `) = \$1$`)
	notifyRe  = regexp.MustCompile(`^select pg_notify\('([^']*)', \$1\)$`)
	selColsRe = regexp.MustCompile(`^select (.+) from (` + identPat + `)$`)
	copyRe    = regexp.MustCompile(`^copy (` + identPat + `) \( (.+) \) from stdin binary$`)
	createRe  = regexp.MustCompile(`^create table if not exists (` + identPat + `) ?\((.+)\)$`)
	indexRe   = regexp.MustCompile(`^create (unique )?index if not exists (` + identPat + `) on (` + identPat + `) \((.+)\)$`)
	alterRe   = regexp.MustCompile(`^alter table (` + identPat + `) add column if not exists (` + identPat + `) (\S+)$`)
	coldefRe  = regexp.MustCompile(`^(` + identPat + `) (\S+)$`)
	identOnly = regexp.MustCompile(`^` + identPat + `$`)
	dropTblRe = regexp.MustCompile(`^drop table if exists (` + identPat + `)$`)
)

// fold applies PostgreSQL identifier folding: unquoted -> lower case.
func fold(id string) string {
	if strings.HasPrefix(id, `"`) {
		return id[1 : len(id)-1]
	}
	return strings.ToLower(id)
}

func splitIdents(list string) ([]string, bool) {
	var res []string
	for _, p := range strings.Split(list, ",") {
		p = strings.TrimSpace(p)
		p = strings.TrimSuffix(strings.TrimSuffix(p, " desc"), " DESC")
		if !identOnly.MatchString(p) {
			return nil, false
		}
		res = append(res, fold(p))
	}
	return res, true
}

func (s *session) planFor(raw string) (*plan, *PgError) {
	n := Norm(raw)
	p := &plan{sql: n, op: OpStmt}
	db := s.db
	if sc, ok := db.server.script(n); ok {
		p.kind = "script"
		p.params, p.fields = sc.Params, nil
		for _, f := range sc.Fields {
			p.fields = append(p.fields, field{f.Name, f.OID})
		}
		p.run = func(s *session, args []any) (string, [][]any, *PgError) {
			if sc.Run != nil {
				if err := sc.Run(s.db); err != nil {
					return "", nil, pgerr("XX000", "%v", err)
				}
			}
			return sc.Tag, nil, nil
		}
		return p, nil
	}
	switch {
	case n == "begin":
		p.kind, p.op = "begin", OpBegin
		p.run = func(s *session, _ []any) (string, [][]any, *PgError) { return s.begin() }
	case n == "commit":
		p.kind, p.op = "commit", OpCommit
		p.run = func(s *session, _ []any) (string, [][]any, *PgError) { return s.commit() }
	case n == "rollback":
		p.kind, p.op = "rollback", OpRollback
		p.run = func(s *session, _ []any) (string, [][]any, *PgError) { return s.rollback("rollback") }
	case setAppRe.MatchString(n):
		m := setAppRe.FindStringSubmatch(n)
		p.kind = "set"
		p.run = func(s *session, _ []any) (string, [][]any, *PgError) {
			s.db.mu.Lock()
			s.app = m[1]
			s.db.mu.Unlock()
			return "SET", nil, nil
		}
	case n == qLatest:
		p.kind = "cursor-select"
		p.params = []uint32{pgtype.TextOID, pgtype.TextOID}
		p.fields = []field{{"num", pgtype.NumericOID}, {"hash", pgtype.ByteaOID}}
		p.run = func(s *session, a []any) (string, [][]any, *PgError) {
			var best *Row
			t, rows := s.visible("shovel.task_updates")
			if t == nil {
				return "", nil, pgerr("42P01", `relation "shovel.task_updates" does not exist`)
			}
			ci, si, ii, hi := t.ColIdx("num"), t.ColIdx("src_name"), t.ColIdx("ig_name"), t.ColIdx("hash")
			for _, r := range rows {
				if Equal(r.Vals[si], a[0]) && Equal(r.Vals[ii], a[1]) {
					if best == nil || Cmp(r.Vals[ci], best.Vals[ci]) > 0 {
						best = r
					}
				}
			}
			if best == nil {
				return "SELECT 0", nil, nil
			}
			return "SELECT 1", [][]any{{best.Vals[ci], best.Vals[hi]}}, nil
		}
	case n == qDep:
		p.kind = "dependency-select"
		p.params = []uint32{pgtype.TextOID, textArrayOID}
		p.fields = []field{{"num", pgtype.NumericOID}, {"hash", pgtype.ByteaOID}}
		p.run = func(s *session, a []any) (string, [][]any, *PgError) {
			t, rows := s.visible("shovel.task_updates")
			if t == nil {
				return "", nil, pgerr("42P01", `relation "shovel.task_updates" does not exist`)
			}
			names, _ := a[1].([]string)
			ci, si, ii, hi := t.ColIdx("num"), t.ColIdx("src_name"), t.ColIdx("ig_name"), t.ColIdx("hash")
			latest := map[string]*Row{}
			for _, r := range rows {
				if !Equal(r.Vals[si], a[0]) {
					continue
				}
				ig, _ := r.Vals[ii].(string)
				in := false
				for _, x := range names {
					if x == ig && r.Vals[ii] != nil {
						in = true
					}
				}
				if !in {
					continue
				}
				if b := latest[ig]; b == nil || Cmp(r.Vals[ci], b.Vals[ci]) > 0 {
					latest[ig] = r
				}
			}
			var best *Row
			keys := make([]string, 0, len(latest))
			for k := range latest {
				keys = append(keys, k)
			}
			sort.Strings(keys)
			for _, k := range keys {
				r := latest[k]
				if best == nil || Cmp(r.Vals[ci], best.Vals[ci]) < 0 {
					best = r
				}
			}
			if best == nil {
				return "SELECT 0", nil, nil
			}
			return "SELECT 1", [][]any{{best.Vals[ci], best.Vals[hi]}}, nil
		}
	case n == qInsert:
		p.kind = "cursor-insert"
		p.params = []uint32{pgtype.Int4OID, pgtype.TextOID, pgtype.TextOID, pgtype.NumericOID, pgtype.ByteaOID, pgtype.NumericOID, pgtype.ByteaOID, pgtype.NumericOID, pgtype.NumericOID, pgtype.NumericOID, pgtype.IntervalOID}
		names := []string{"chain_id", "src_name", "ig_name", "num", "hash", "src_num", "src_hash", "stop", "nblocks", "nrows", "latency"}
		p.run = func(s *session, a []any) (string, [][]any, *PgError) {
			return s.insertNamed("shovel.task_updates", names, [][]any{a})
		}
	case n == qDelTU:
		p.kind = "cursor-delete"
		p.params = []uint32{pgtype.TextOID, pgtype.TextOID, pgtype.NumericOID}
		p.run = func(s *session, a []any) (string, [][]any, *PgError) {
			return s.deleteGE("shovel.task_updates", "num", a)
		}
	case delRe.MatchString(n):
		m := delRe.FindStringSubmatch(n)
		table := fold(m[1])
		p.kind = "table-delete"
		p.params = []uint32{pgtype.TextOID, pgtype.TextOID, pgtype.NumericOID}
		if e := s.needCols(table, "src_name", "ig_name", "block_num"); e != nil {
			return nil, e
		}
		p.run = func(s *session, a []any) (string, [][]any, *PgError) {
			return s.deleteGE(table, "block_num", a)
		}
	case refRe.MatchString(n):
		m := refRe.FindStringSubmatch(n)
		table, col := fold(m[1]), fold(m[2])
		if e := s.needCols(table, col); e != nil {
			return nil, e
		}
		p.kind = "ref-lookup"
		p.params = []uint32{s.colOID(table, col)}
		p.fields = []field{{"bool", pgtype.BoolOID}}
		p.run = func(s *session, a []any) (string, [][]any, *PgError) {
			t, rows := s.visible(table)
			ci := t.ColIdx(col)
			var out [][]any
			for _, r := range rows {
				if Equal(r.Vals[ci], a[0]) {
					out = append(out, []any{true})
				}
			}
			return fmt.Sprintf("SELECT %d", len(out)), out, nil
		}
	case notifyRe.MatchString(n):
		m := notifyRe.FindStringSubmatch(n)
		p.kind = "notify"
		p.params = []uint32{pgtype.TextOID}
		p.fields = []field{{"pg_notify", pgtype.TextOID}}
		p.run = func(s *session, a []any) (string, [][]any, *PgError) {
			payload, _ := a[0].(string)
			s.db.mu.Lock()
			nt := Notify{Channel: m[1], Payload: payload, Conn: s.id}
			if s.tx != nil {
				s.tx.notifies = append(s.tx.notifies, nt)
			} else {
				s.db.notifies = append(s.db.notifies, nt)
			}
			s.db.mu.Unlock()
			return "SELECT 1", [][]any{{""}}, nil
		}
	case n == qLock:
		p.kind = "advisory-lock"
		p.params = []uint32{pgtype.Int8OID}
		p.fields = []field{{"pg_advisory_xact_lock", pgtype.TextOID}}
		p.run = func(s *session, a []any) (string, [][]any, *PgError) { return "SELECT 1", [][]any{{""}}, nil }
	case n == qPrune:
		// keep the newest $1 positions of every (src_name, ig_name)
		p.kind = "prune-positions"
		p.params = []uint32{pgtype.Int8OID}
		p.run = func(s *session, a []any) (string, [][]any, *PgError) {
			keep, _ := a[0].(int64)
			s.db.mu.Lock()
			defer s.db.mu.Unlock()
			t, vis := s.visibleLocked("shovel.task_updates")
			if t == nil {
				return "", nil, pgerr("42P01", `relation "shovel.task_updates" does not exist`)
			}
			si, ii, ci := t.ColIdx("src_name"), t.ColIdx("ig_name"), t.ColIdx("num")
			groups := map[string][]*Row{}
			for _, r := range vis {
				k := fmt.Sprintf("%v|%v", r.Vals[si], r.Vals[ii])
				groups[k] = append(groups[k], r)
			}
			auto := s.tx == nil
			if auto {
				s.tx = newTx()
			}
			n := 0
			for _, rows := range groups {
				sort.Slice(rows, func(i, j int) bool { return Cmp(rows[i].Vals[ci], rows[j].Vals[ci]) > 0 })
				for i, r := range rows {
					if int64(i) < keep {
						continue
					}
					n++
					s.tx.wrote = true
					s.tx.deleted[r.ID] = true
				}
			}
			if auto {
				if err := s.commitLocked(); err != nil {
					return "", nil, err
				}
			}
			return fmt.Sprintf("DELETE %d", n), nil, nil
		}
	case n == qInfo:
		p.kind = "info-schema"
		p.params = []uint32{pgtype.TextOID}
		p.fields = []field{{"column_name", pgtype.TextOID}, {"data_type", pgtype.TextOID}}
		p.run = func(s *session, a []any) (string, [][]any, *PgError) {
			s.db.mu.Lock()
			defer s.db.mu.Unlock()
			name, _ := a[0].(string)
			t := s.db.tables[name]
			if t == nil || strings.Contains(name, ".") {
				return "SELECT 0", nil, nil
			}
			var out [][]any
			for _, c := range t.Cols {
				out = append(out, []any{c.Name, informationSchemaType[c.OID]})
			}
			return fmt.Sprintf("SELECT %d", len(out)), out, nil
		}
	case n == qIgs:
		p.kind = "select-integrations"
		p.fields = []field{{"conf", pgtype.JSONBOID}}
		p.run = func(s *session, _ []any) (string, [][]any, *PgError) {
			t, rows := s.visible("shovel.integrations")
			if t == nil {
				return "", nil, pgerr("42P01", `relation "shovel.integrations" does not exist`)
			}
			var out [][]any
			for _, r := range rows {
				out = append(out, []any{r.Vals[t.ColIdx("conf")]})
			}
			return fmt.Sprintf("SELECT %d", len(out)), out, nil
		}
	case n == qSrcs:
		p.kind = "select-sources"
		p.fields = []field{{"name", pgtype.TextOID}, {"chain_id", pgtype.Int4OID}, {"url", pgtype.TextOID}}
		p.run = func(s *session, _ []any) (string, [][]any, *PgError) {
			t, rows := s.visible("shovel.sources")
			if t == nil {
				return "", nil, pgerr("42P01", `relation "shovel.sources" does not exist`)
			}
			var out [][]any
			for _, r := range rows {
				out = append(out, []any{r.Vals[t.ColIdx("name")], r.Vals[t.ColIdx("chain_id")], r.Vals[t.ColIdx("url")]})
			}
			return fmt.Sprintf("SELECT %d", len(out)), out, nil
		}
	case n == qInsIg:
		p.kind = "insert-integration"
		p.params = []uint32{pgtype.TextOID, pgtype.JSONBOID}
		p.run = func(s *session, a []any) (string, [][]any, *PgError) {
			return s.insertNamed("shovel.integrations", []string{"name", "conf"}, [][]any{a})
		}
	case n == qInsSrc:
		p.kind = "insert-source"
		p.params = []uint32{pgtype.Int4OID, pgtype.TextOID, pgtype.TextOID}
		p.run = func(s *session, a []any) (string, [][]any, *PgError) {
			return s.insertNamed("shovel.sources", []string{"chain_id", "name", "url"}, [][]any{a})
		}
	case copyRe.MatchString(n):
		m := copyRe.FindStringSubmatch(n)
		cols, ok := splitIdents(m[2])
		if !ok {
			return nil, s.unrecognised(n)
		}
		table := fold(m[1])
		if e := s.needCols(table, cols...); e != nil {
			return nil, e
		}
		p.kind, p.op = "copy", OpCopy
		p.copyTable, p.copyCols = table, cols
	case createRe.MatchString(n):
		m := createRe.FindStringSubmatch(n)
		table := fold(m[1])
		var cols []Col
		for _, def := range strings.Split(m[2], ",") {
			dm := coldefRe.FindStringSubmatch(strings.TrimSpace(def))
			if dm == nil {
				return nil, s.unrecognised(n)
			}
			typ := strings.ToLower(dm[2])
			oid, ok := typeOIDs[typ]
			if !ok {
				if !identOnly.MatchString(dm[2]) {
					return nil, s.unrecognised(n)
				}
				return nil, pgerr("42704", "type %q does not exist", dm[2])
			}
			cols = append(cols, Col{Name: fold(dm[1]), Type: typ, OID: oid})
		}
		p.kind = "create-table"
		p.run = func(s *session, _ []any) (string, [][]any, *PgError) {
			s.db.mu.Lock()
			defer s.db.mu.Unlock()
			if _, ok := s.db.tables[table]; ok {
				return "CREATE TABLE", nil, nil
			}
			seen := map[string]bool{}
			for _, c := range cols {
				if seen[c.Name] {
					return "", nil, pgerr("42701", "column %q specified more than once", c.Name)
				}
				seen[c.Name] = true
			}
			s.db.tables[table] = &Table{Name: table, Cols: cols}
			return "CREATE TABLE", nil, nil
		}
	case indexRe.MatchString(n):
		m := indexRe.FindStringSubmatch(n)
		unique, name, table := m[1] != "", fold(m[2]), fold(m[3])
		cols, ok := splitIdents(m[4])
		if !ok {
			return nil, s.unrecognised(n)
		}
		p.kind = "create-index"
		p.run = func(s *session, _ []any) (string, [][]any, *PgError) {
			s.db.mu.Lock()
			defer s.db.mu.Unlock()
			for _, t := range s.db.tables {
				for _, ix := range t.Indexes {
					if ix.Name == name {
						return "CREATE INDEX", nil, nil // if not exists: the NAME exists
					}
				}
			}
			t := s.db.tables[table]
			if t == nil {
				return "", nil, pgerr("42P01", "relation %q does not exist", table)
			}
			for _, c := range cols {
				if t.ColIdx(c) < 0 {
					return "", nil, pgerr("42703", "column %q does not exist", c)
				}
			}
			ix := Index{Name: name, Cols: cols, Unique: unique}
			if unique {
				seen := map[string]bool{}
				for _, r := range t.Rows {
					k, ok := uniqueKey(t, ix, r)
					if !ok {
						continue
					}
					if seen[k] {
						return "", nil, pgerr("23505", "could not create unique index %q", name)
					}
					seen[k] = true
				}
			}
			t.Indexes = append(t.Indexes, ix)
			return "CREATE INDEX", nil, nil
		}
	case alterRe.MatchString(n):
		m := alterRe.FindStringSubmatch(n)
		table, col, typ := fold(m[1]), fold(m[2]), strings.ToLower(m[3])
		oid, ok := typeOIDs[typ]
		if !ok {
			if !identOnly.MatchString(m[3]) {
				return nil, s.unrecognised(n)
			}
			return nil, pgerr("42704", "type %q does not exist", m[3])
		}
		p.kind = "alter-table"
		p.run = func(s *session, _ []any) (string, [][]any, *PgError) {
			s.db.mu.Lock()
			defer s.db.mu.Unlock()
			t := s.db.tables[table]
			if t == nil {
				return "", nil, pgerr("42P01", "relation %q does not exist", table)
			}
			if t.ColIdx(col) >= 0 {
				return "ALTER TABLE", nil, nil
			}
			t.Cols = append(t.Cols, Col{Name: col, Type: typ, OID: oid})
			for _, r := range t.Rows {
				r.Vals = append(r.Vals, nil)
			}
			return "ALTER TABLE", nil, nil
		}
	case dropTblRe.MatchString(n):
		m := dropTblRe.FindStringSubmatch(n)
		p.kind = "drop-table"
		p.run = func(s *session, _ []any) (string, [][]any, *PgError) {
			s.db.mu.Lock()
			delete(s.db.tables, fold(m[1]))
			s.db.mu.Unlock()
			return "DROP TABLE", nil, nil
		}
	case selColsRe.MatchString(n):
		// the statement pgx.CopyFrom prepares to learn the column types
		m := selColsRe.FindStringSubmatch(n)
		cols, ok := splitIdents(m[1])
		if !ok {
			return nil, s.unrecognised(n)
		}
		table := fold(m[2])
		if e := s.needCols(table, cols...); e != nil {
			return nil, e
		}
		p.kind = "select-cols"
		for _, c := range cols {
			p.fields = append(p.fields, field{c, s.colOID(table, c)})
		}
		p.run = func(s *session, _ []any) (string, [][]any, *PgError) {
			t, rows := s.visible(table)
			var out [][]any
			for _, r := range rows {
				var o []any
				for _, c := range cols {
					o = append(o, r.Vals[t.ColIdx(c)])
				}
				out = append(out, o)
			}
			return fmt.Sprintf("SELECT %d", len(out)), out, nil
		}
	default:
		return nil, s.unrecognised(n)
	}
	return p, nil
}

// an empty quoted identifier: PostgreSQL refuses the statement while parsing it
var zeroLenIdentRe = regexp.MustCompile(`(^|[ ,(.])""([ ,).]|$)`)

func (s *session) unrecognised(n string) *PgError {
	if zeroLenIdentRe.MatchString(n) {
		return pgerr("42601", `zero-length delimited identifier at or near """"`)
	}
	s.db.mu.Lock()
	s.db.unrec = append(s.db.unrec, n)
	s.db.mu.Unlock()
	return pgerr("42601", "syntax error (statement shape unknown to fakepg): %.200s", n)
}

func (s *session) needCols(table string, cols ...string) *PgError {
	s.db.mu.Lock()
	defer s.db.mu.Unlock()
	t := s.db.tables[table]
	if t == nil {
		return pgerr("42P01", "relation %q does not exist", table)
	}
	for _, c := range cols {
		if t.ColIdx(c) < 0 {
			return pgerr("42703", "column %q of relation %q does not exist", c, table)
		}
	}
	return nil
}

func (s *session) colOID(table, col string) uint32 {
	s.db.mu.Lock()
	defer s.db.mu.Unlock()
	t := s.db.tables[table]
	return t.Cols[t.ColIdx(col)].OID
}

// ---- transactions ------------------------------------------------------------

type txState struct {
	added    map[string][]*Row
	deleted  map[int64]bool
	failed   bool
	notifies []Notify
	wrote    bool
}

func newTx() *txState { return &txState{added: map[string][]*Row{}, deleted: map[int64]bool{}} }

func (s *session) begin() (string, [][]any, *PgError) {
	s.db.mu.Lock()
	defer s.db.mu.Unlock()
	if s.tx == nil {
		s.tx = newTx()
	}
	return "BEGIN", nil, nil
}

// visible returns the rows of table this session can see (committed minus own
// deletions plus own insertions). Read-committed: no snapshot.
func (s *session) visible(table string) (*Table, []*Row) {
	s.db.mu.Lock()
	defer s.db.mu.Unlock()
	return s.visibleLocked(table)
}

func (s *session) visibleLocked(table string) (*Table, []*Row) {
	t := s.db.tables[table]
	if t == nil {
		return nil, nil
	}
	if s.tx == nil {
		return t, append([]*Row{}, t.Rows...)
	}
	rows := make([]*Row, 0, len(t.Rows))
	for _, r := range t.Rows {
		if !s.tx.deleted[r.ID] {
			rows = append(rows, r)
		}
	}
	return t, append(rows, s.tx.added[table]...)
}

func uniqueKey(t *Table, ix Index, r *Row) (string, bool) {
	var sb strings.Builder
	for _, c := range ix.Cols {
		v := r.Vals[t.ColIdx(c)]
		if v == nil {
			return "", false // NULLs are distinct
		}
		switch x := v.(type) {
		case *big.Int:
			fmt.Fprintf(&sb, "n%s|", x.String())
		case []byte:
			fmt.Fprintf(&sb, "b%x|", x)
		default:
			fmt.Fprintf(&sb, "%T%v|", v, v)
		}
	}
	return sb.String(), true
}

// insertRowsLocked adds rows (already shaped to the table) with unique checks.
func (s *session) insertRowsLocked(table string, rows []*Row) *PgError {
	t, vis := s.visibleLocked(table)
	for _, ix := range t.Indexes {
		if !ix.Unique {
			continue
		}
		seen := map[string]bool{}
		for _, r := range vis {
			if k, ok := uniqueKey(t, ix, r); ok {
				seen[k] = true
			}
		}
		for _, r := range rows {
			k, ok := uniqueKey(t, ix, r)
			if !ok {
				continue
			}
			if seen[k] {
				return pgerr("23505", "duplicate key value violates unique constraint %q", ix.Name)
			}
			seen[k] = true
		}
	}
	auto := s.tx == nil
	if auto {
		s.tx = newTx()
	}
	s.tx.added[table] = append(s.tx.added[table], rows...)
	s.tx.wrote = true
	if auto {
		return s.commitLocked()
	}
	return nil
}

func (s *session) insertNamed(table string, names []string, vals [][]any) (string, [][]any, *PgError) {
	s.db.mu.Lock()
	defer s.db.mu.Unlock()
	t := s.db.tables[table]
	if t == nil {
		return "", nil, pgerr("42P01", "relation %q does not exist", table)
	}
	var rows []*Row
	for _, v := range vals {
		r := &Row{ID: s.db.nextRow, Vals: make([]any, len(t.Cols))}
		s.db.nextRow++
		for i, n := range names {
			ci := t.ColIdx(n)
			if ci < 0 {
				return "", nil, pgerr("42703", "column %q of relation %q does not exist", n, table)
			}
			r.Vals[ci] = v[i]
		}
		rows = append(rows, r)
	}
	if err := s.insertRowsLocked(table, rows); err != nil {
		return "", nil, err
	}
	return fmt.Sprintf("INSERT 0 %d", len(rows)), nil, nil
}

// deleteGE: delete from table where src_name = a0 and ig_name = a1 and col >= a2.
func (s *session) deleteGE(table, col string, a []any) (string, [][]any, *PgError) {
	s.db.mu.Lock()
	defer s.db.mu.Unlock()
	t, vis := s.visibleLocked(table)
	if t == nil {
		return "", nil, pgerr("42P01", "relation %q does not exist", table)
	}
	si, ii, ci := t.ColIdx("src_name"), t.ColIdx("ig_name"), t.ColIdx(col)
	auto := s.tx == nil
	if auto {
		s.tx = newTx()
	}
	n := 0
	for _, r := range vis {
		if Equal(r.Vals[si], a[0]) && Equal(r.Vals[ii], a[1]) && r.Vals[ci] != nil && a[2] != nil && Cmp(r.Vals[ci], a[2]) >= 0 {
			n++
			s.tx.wrote = true
			if s.tx.deleted[r.ID] {
				continue
			}
			own := false
			for i, ar := range s.tx.added[table] {
				if ar == r {
					s.tx.added[table] = append(s.tx.added[table][:i:i], s.tx.added[table][i+1:]...)
					own = true
					break
				}
			}
			if !own {
				s.tx.deleted[r.ID] = true
			}
		}
	}
	if auto {
		if err := s.commitLocked(); err != nil {
			return "", nil, err
		}
	}
	return fmt.Sprintf("DELETE %d", n), nil, nil
}

func (s *session) commit() (string, [][]any, *PgError) {
	s.db.mu.Lock()
	defer s.db.mu.Unlock()
	if s.tx == nil {
		return "COMMIT", nil, nil // WARNING: there is no transaction in progress
	}
	if s.tx.failed {
		s.tx = nil
		if s.db.OnAbort != nil {
			s.db.OnAbort(s.db, s.id, "commit-of-failed-tx")
		}
		return "ROLLBACK", nil, nil
	}
	if err := s.commitLocked(); err != nil {
		return "", nil, err
	}
	return "COMMIT", nil, nil
}

func (s *session) commitLocked() *PgError {
	db, tx := s.db, s.tx
	s.tx = nil
	// concurrent-writer conflicts surface here (the fake has no lock waits)
	tables := make([]string, 0, len(tx.added))
	for name := range tx.added {
		tables = append(tables, name)
	}
	sort.Strings(tables)
	for _, name := range tables {
		t := db.tables[name]
		if t == nil {
			continue
		}
		for _, ix := range t.Indexes {
			if !ix.Unique {
				continue
			}
			seen := map[string]bool{}
			for _, r := range t.Rows {
				if tx.deleted[r.ID] {
					continue
				}
				if k, ok := uniqueKey(t, ix, r); ok {
					seen[k] = true
				}
			}
			for _, r := range tx.added[name] {
				if k, ok := uniqueKey(t, ix, r); ok {
					if seen[k] {
						if db.OnAbort != nil {
							db.OnAbort(db, s.id, "commit-conflict")
						}
						return pgerr("23505", "duplicate key value violates unique constraint %q", ix.Name)
					}
					seen[k] = true
				}
			}
		}
	}
	c := &Commit{Seq: db.commitN, Conn: s.id, App: s.app}
	db.commitN++
	if len(tx.deleted) > 0 {
		names := make([]string, 0, len(db.tables))
		for name := range db.tables {
			names = append(names, name)
		}
		sort.Strings(names)
		for _, name := range names {
			t := db.tables[name]
			keep := t.Rows[:0:0]
			for _, r := range t.Rows {
				if tx.deleted[r.ID] {
					c.Removed = append(c.Removed, RowChange{Table: name, Row: rowMap(t, r)})
					continue
				}
				keep = append(keep, r)
			}
			t.Rows = keep
		}
	}
	for _, name := range tables {
		t := db.tables[name]
		if t == nil {
			continue
		}
		for _, r := range tx.added[name] {
			for len(r.Vals) < len(t.Cols) {
				r.Vals = append(r.Vals, nil)
			}
			t.Rows = append(t.Rows, r)
			c.Added = append(c.Added, RowChange{Table: name, Row: rowMap(t, r)})
		}
	}
	db.notifies = append(db.notifies, tx.notifies...)
	if len(c.Added)+len(c.Removed) > 0 || tx.wrote {
		db.commits = append(db.commits, c)
	}
	db.event(s.id, "commit", "", nil, fmt.Sprintf("+%d -%d", len(c.Added), len(c.Removed)))
	if db.OnCommit != nil {
		db.OnCommit(db, c)
	}
	return nil
}

func (s *session) rollback(why string) (string, [][]any, *PgError) {
	s.db.mu.Lock()
	defer s.db.mu.Unlock()
	if s.tx != nil {
		s.tx = nil
		s.db.event(s.id, "rollback", "", nil, why)
		if s.db.OnAbort != nil {
			s.db.OnAbort(s.db, s.id, why)
		}
	}
	return "ROLLBACK", nil, nil
}

func (db *DB) event(conn int, kind, sql string, args []any, note string) {
	db.evSeq++
	if !db.KeepEvents {
		return
	}
	db.events = append(db.events, Event{Seq: db.evSeq, Conn: conn, Kind: kind, SQL: sql, Args: args, Note: note})
}

// run executes one statement (simple protocol / direct Exec path).
func (s *session) run(sql string, args []any, _ any) (string, *PgError) {
	p, err := s.planFor(sql)
	if err != nil {
		return "", err
	}
	if p.run == nil {
		return "", pgerr("0A000", "statement cannot be executed directly: %s", p.kind)
	}
	tag, _, err := p.run(s, args)
	return tag, err
}

// splitStatements splits a simple-protocol query string on top-level
// semicolons (quotes and $$ bodies respected).
func splitStatements(q string) []string {
	var res []string
	var cur strings.Builder
	inS, inD, inDollar := false, false, false
	for i := 0; i < len(q); i++ {
		c := q[i]
		switch {
		case inDollar:
			if c == '$' && i+1 < len(q) && q[i+1] == '$' {
				inDollar = false
				cur.WriteString("$$")
				i++
				continue
			}
		case inS:
			if c == '\'' {
				inS = false
			}
		case inD:
			if c == '"' {
				inD = false
			}
		case c == '\'':
			inS = true
		case c == '"':
			inD = true
		case c == '$' && i+1 < len(q) && q[i+1] == '$':
			inDollar = true
			cur.WriteString("$$")
			i++
			continue
		case c == '-' && i+1 < len(q) && q[i+1] == '-':
			for i < len(q) && q[i] != '\n' {
				i++
			}
			cur.WriteByte('\n')
			continue
		case c == ';':
			if s := strings.TrimSpace(cur.String()); s != "" {
				res = append(res, s)
			}
			cur.Reset()
			continue
		}
		cur.WriteByte(c)
	}
	if s := strings.TrimSpace(cur.String()); s != "" {
		res = append(res, s)
	}
	return res
}
