// Package fakepg is an in-process PostgreSQL stand-in that speaks the v3 wire
// protocol (pgproto3 backend) and understands exactly the statement shapes
// shovel emits. Anything else is answered with a syntax error and recorded in
// DB.Unrecognised. See DESIGN.md §3.1.
package fakepg

import (
	"fmt"
	"math/big"
	"sort"
	"strings"
	"sync"

	"github.com/jackc/pgx/v5/pgtype"
)

type Col struct {
	Name string
	Type string // as written in DDL (lower case)
	OID  uint32
}

type Row struct {
	ID   int64
	Vals []any // by column index; canonical Go values (see decode.go)
}

type Index struct {
	Name   string
	Cols   []string
	Unique bool
	Desc   map[string]bool
}

type Table struct {
	Name    string
	Cols    []Col
	Rows    []*Row
	Indexes []Index
}

func (t *Table) ColIdx(name string) int {
	for i, c := range t.Cols {
		if c.Name == name {
			return i
		}
	}
	return -1
}

// typeOIDs: the column types shovel's documentation and schema use.
var typeOIDs = map[string]uint32{
	"text": pgtype.TextOID, "varchar": pgtype.TextOID,
	"bytea":   pgtype.ByteaOID,
	"numeric": pgtype.NumericOID, "decimal": pgtype.NumericOID,
	"int": pgtype.Int4OID, "integer": pgtype.Int4OID, "int4": pgtype.Int4OID,
	"int2": pgtype.Int2OID, "smallint": pgtype.Int2OID,
	"int8": pgtype.Int8OID, "bigint": pgtype.Int8OID,
	"bool": pgtype.BoolOID, "boolean": pgtype.BoolOID,
	"jsonb": pgtype.JSONBOID, "json": pgtype.JSONOID,
	"interval":    pgtype.IntervalOID,
	"timestamptz": pgtype.TimestamptzOID,
}

// informationSchemaType is what information_schema.columns.data_type reports.
var informationSchemaType = map[uint32]string{
	pgtype.TextOID: "text", pgtype.ByteaOID: "bytea", pgtype.NumericOID: "numeric",
	pgtype.Int4OID: "integer", pgtype.Int2OID: "smallint", pgtype.Int8OID: "bigint",
	pgtype.BoolOID: "boolean", pgtype.JSONBOID: "jsonb", pgtype.JSONOID: "json",
	pgtype.IntervalOID: "interval", pgtype.TimestamptzOID: "timestamp with time zone",
}

// OpKind names the I/O operations a fault plan can target.
type OpKind string

const (
	OpBegin    OpKind = "begin"
	OpCommit   OpKind = "commit"
	OpRollback OpKind = "rollback"
	OpStmt     OpKind = "stmt"      // any other statement (simple or Execute)
	OpCopy     OpKind = "copy"      // COPY ... FROM STDIN start
	OpCopyEnd  OpKind = "copy-done" // after the data arrived, before it is applied
)

type Op struct {
	Seq  int // 0-based index among the fault-eligible operations of this DB
	Kind OpKind
	Conn int
	SQL  string
}

type FaultKind int

const (
	NoFault    FaultKind = iota
	ErrReply             // answer with an error, do not execute
	DropBefore           // close the connection without executing
	DropAfter            // execute (a commit is applied!), then close without replying
)

type Fault struct {
	Kind FaultKind
	Code string // SQLSTATE for ErrReply (default 57014)
}

// RowChange is one row added or removed by a commit.
type RowChange struct {
	Table string
	Row   map[string]any
}

type Commit struct {
	Seq     int
	Conn    int
	App     string // application_name of the connection
	Added   []RowChange
	Removed []RowChange
}

type Event struct {
	Seq  int
	Conn int
	Kind string // "sql", "exec", "copy", "commit", "rollback", "disconnect", "begin", "error"
	SQL  string
	Args []any
	Note string
}

type Notify struct {
	Channel, Payload string
	Conn             int
}

type DB struct {
	Name string

	mu       sync.Mutex
	tables   map[string]*Table
	nextRow  int64
	evSeq    int
	opSeq    int
	commitN  int
	events   []Event
	commits  []*Commit
	notifies []Notify
	unrec    []string
	sessions map[int]*session
	connN    int
	locked   map[int64]int // advisory xact locks: key -> conn
	server   *Server
	sqlTexts []string

	// KeepSQL: record every SQL text received (simple Query and Parse).
	KeepSQL bool

	// KeepEvents: record the protocol event log (off for throughput runs).
	KeepEvents bool
	// OnCommit is called under the DB mutex right after a commit was applied,
	// i.e. in every state another session could observe.
	OnCommit func(db *DB, c *Commit)
	// OnAbort is called under the DB mutex after a transaction ended without
	// commit (rollback, error, connection loss); the committed state is unchanged.
	OnAbort func(db *DB, conn int, why string)
	// Fault decides, per fault-eligible operation, whether to inject a fault.
	// Called without the DB mutex held.
	Fault func(op Op) Fault
	// OnOp observes every fault-eligible operation (after Fault was consulted).
	OnOp func(op Op, f Fault)
}

func newDB(name string) *DB {
	return &DB{Name: name, tables: map[string]*Table{}, sessions: map[int]*session{}, locked: map[int64]int{}}
}

// ---- inspection API (all return copies, safe for concurrent use) ----------

func cloneVal(v any) any {
	switch x := v.(type) {
	case []byte:
		return append([]byte{}, x...)
	case *big.Int:
		return new(big.Int).Set(x)
	case []string:
		return append([]string{}, x...)
	}
	return v
}

func rowMap(t *Table, r *Row) map[string]any {
	m := make(map[string]any, len(t.Cols))
	for i, c := range t.Cols {
		m[c.Name] = cloneVal(r.Vals[i])
	}
	return m
}

// Rows returns the committed rows of a table as maps.
func (db *DB) Rows(table string) []map[string]any {
	db.mu.Lock()
	defer db.mu.Unlock()
	return db.rowsLocked(table)
}

// RowsLocked is Rows for use inside OnCommit/OnAbort hooks.
func (db *DB) RowsLocked(table string) []map[string]any { return db.rowsLocked(table) }

func (db *DB) rowsLocked(table string) []map[string]any {
	t := db.tables[table]
	if t == nil {
		return nil
	}
	res := make([]map[string]any, 0, len(t.Rows))
	for _, r := range t.Rows {
		res = append(res, rowMap(t, r))
	}
	return res
}

func (db *DB) TableNames() []string {
	db.mu.Lock()
	defer db.mu.Unlock()
	var res []string
	for n := range db.tables {
		res = append(res, n)
	}
	sort.Strings(res)
	return res
}

func (db *DB) TableCols(table string) []Col {
	db.mu.Lock()
	defer db.mu.Unlock()
	t := db.tables[table]
	if t == nil {
		return nil
	}
	return append([]Col{}, t.Cols...)
}

func (db *DB) TableIndexes(table string) []Index {
	db.mu.Lock()
	defer db.mu.Unlock()
	t := db.tables[table]
	if t == nil {
		return nil
	}
	return append([]Index{}, t.Indexes...)
}

func (db *DB) Events() []Event {
	db.mu.Lock()
	defer db.mu.Unlock()
	return append([]Event{}, db.events...)
}

func (db *DB) Commits() []*Commit {
	db.mu.Lock()
	defer db.mu.Unlock()
	return append([]*Commit{}, db.commits...)
}

func (db *DB) Unrecognised() []string {
	db.mu.Lock()
	defer db.mu.Unlock()
	return append([]string{}, db.unrec...)
}

func (db *DB) Notifications() []Notify {
	db.mu.Lock()
	defer db.mu.Unlock()
	return append([]Notify{}, db.notifies...)
}

// SQLTexts returns every SQL text received over the wire (when KeepSQL is set).
func (db *DB) SQLTexts() []string {
	db.mu.Lock()
	defer db.mu.Unlock()
	return append([]string{}, db.sqlTexts...)
}

func (db *DB) OpCount() int {
	db.mu.Lock()
	defer db.mu.Unlock()
	return db.opSeq
}

// OpenTx reports the connections that currently have an open transaction.
func (db *DB) OpenTx() []int {
	db.mu.Lock()
	defer db.mu.Unlock()
	var res []int
	for id, s := range db.sessions {
		if s.tx != nil {
			res = append(res, id)
		}
	}
	sort.Ints(res)
	return res
}

// KillAll closes every client connection (process death of the client, or a
// server restart): open transactions are rolled back.
func (db *DB) KillAll() {
	db.mu.Lock()
	var ss []*session
	for _, s := range db.sessions {
		ss = append(ss, s)
	}
	db.mu.Unlock()
	for _, s := range ss {
		s.conn.Close()
	}
	// wait until the sessions are gone so that the caller observes a quiet server
	for i := 0; i < 2000; i++ {
		db.mu.Lock()
		n := len(db.sessions)
		db.mu.Unlock()
		if n == 0 {
			return
		}
		sleepMs(1)
	}
}

// ---- direct DDL/DML for harness set-up (bypasses the wire) ----------------

// Exec runs SQL text directly against the committed store (harness set-up).
func (db *DB) Exec(sql string, args ...any) error {
	s := &session{db: db, id: 0, tm: pgtype.NewMap()}
	for _, stmt := range splitStatements(sql) {
		if _, err := s.run(stmt, args, nil); err != nil {
			return err
		}
	}
	return nil
}

// InsertRow adds a committed row (harness set-up); cols not given are NULL.
func (db *DB) InsertRow(table string, vals map[string]any) error {
	db.mu.Lock()
	defer db.mu.Unlock()
	t := db.tables[table]
	if t == nil {
		return fmt.Errorf("no table %s", table)
	}
	r := &Row{ID: db.nextRow, Vals: make([]any, len(t.Cols))}
	db.nextRow++
	for k, v := range vals {
		i := t.ColIdx(k)
		if i < 0 {
			return fmt.Errorf("no column %s.%s", table, k)
		}
		r.Vals[i] = v
	}
	t.Rows = append(t.Rows, r)
	return nil
}

// DeleteRows removes committed rows directly (harness-side housekeeping, not an SQL statement).
func (db *DB) DeleteRows(table string, match func(vals map[string]any) bool) int {
	db.mu.Lock()
	defer db.mu.Unlock()
	t := db.tables[table]
	if t == nil {
		return 0
	}
	n := 0
	keep := t.Rows[:0:0]
	for _, r := range t.Rows {
		m := map[string]any{}
		for i, c := range t.Cols {
			m[c.Name] = r.Vals[i]
		}
		if match(m) {
			n++
			continue
		}
		keep = append(keep, r)
	}
	t.Rows = keep
	return n
}

// ---- value comparison -------------------------------------------------------

// Cmp compares two canonical values of the same kind; NULLs sort last.
func Cmp(a, b any) int {
	switch x := a.(type) {
	case nil:
		if b == nil {
			return 0
		}
		return 1
	case *big.Int:
		if b == nil {
			return -1
		}
		return x.Cmp(b.(*big.Int))
	case int64:
		if b == nil {
			return -1
		}
		y := b.(int64)
		switch {
		case x < y:
			return -1
		case x > y:
			return 1
		}
		return 0
	case string:
		if b == nil {
			return -1
		}
		return strings.Compare(x, b.(string))
	case []byte:
		if b == nil {
			return -1
		}
		return strings.Compare(string(x), string(b.([]byte)))
	case bool:
		if b == nil {
			return -1
		}
		y := b.(bool)
		switch {
		case x == y:
			return 0
		case !x:
			return -1
		}
		return 1
	}
	return strings.Compare(fmt.Sprint(a), fmt.Sprint(b))
}

func Equal(a, b any) bool {
	if a == nil || b == nil {
		return false // SQL: NULL = x is never true
	}
	return fmt.Sprintf("%T", a) == fmt.Sprintf("%T", b) && Cmp(a, b) == 0
}
