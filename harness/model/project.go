// Package model computes, independently of shovel, the rows an integration
// declaration derives from a chain ("projection"), from the JSON-RPC view of
// the chain and the documented meaning of each field name.
package model

import (
	"bytes"
	"encoding/hex"
	"fmt"
	"math/big"
	"sort"
	"strings"

	"verifharness/refmodel"
	"verifharness/sim"
)

type Row struct {
	BlockNum uint64
	TxIdx    uint64
	LogIdx   int
	AbiIdx   int
	TraceIdx int
	Cells    map[string]refmodel.Cell // column name -> canonical value
}

// Lookup answers whether val is present in the referenced integration's column
// when the row of block blockNum is processed.
type Lookup func(ref *refmodel.Ref, val []byte, blockNum uint64) bool

func at(l Lookup, blockNum uint64) func(ref *refmodel.Ref, val []byte) bool {
	return func(ref *refmodel.Ref, val []byte) bool {
		if l == nil {
			return false
		}
		return l(ref, val, blockNum)
	}
}

func big64(x uint64) *big.Int { return new(big.Int).SetUint64(x) }

func orZero(x *big.Int) *big.Int {
	if x == nil {
		return new(big.Int)
	}
	return new(big.Int).Set(x)
}

func nz(b []byte) []byte {
	if b == nil {
		return []byte{}
	}
	return append([]byte{}, b...)
}

// Field provenance (JSON-RPC specification): which RPC result carries a field.
//
//	header  : eth_getBlockByNumber(n, false) — number, hash, parentHash, timestamp
//	block   : eth_getBlockByNumber(n, true)  — plus full transaction objects
//	receipt : eth_getBlockReceipts           — status, gasUsed, effectiveGasPrice, contractAddress, logs, from, to, type
//	log     : eth_getLogs                    — address, topics, data, logIndex, tx hash/index, block hash/number
//	trace   : trace_block                    — action.{from,to,value,callType}
var Provenance = map[string][]string{
	"block_hash": {"header", "block", "receipt", "log", "trace"}, "block_num": {"header", "block", "receipt", "log", "trace"},
	"block_time": {"header", "block"},
	"tx_hash":    {"block", "receipt", "log", "trace"}, "tx_idx": {"block", "receipt", "log", "trace"},
	"tx_signer": {"block", "receipt"}, "tx_to": {"block", "receipt"}, "tx_type": {"block", "receipt"},
	"tx_value": {"block"}, "tx_input": {"block"}, "tx_nonce": {"block"}, "tx_gas_price": {"block"},
	"tx_max_priority_fee_per_gas": {"block"}, "tx_max_fee_per_gas": {"block"},
	"tx_status": {"receipt"}, "tx_gas_used": {"receipt"}, "tx_effective_gas_price": {"receipt"}, "tx_contract_address": {"receipt"},
	"log_idx": {"log", "receipt"}, "log_addr": {"log", "receipt"},
	"trace_action_idx": {"trace"}, "trace_action_call_type": {"trace"}, "trace_action_from": {"trace"},
	"trace_action_to": {"trace"}, "trace_action_value": {"trace"},
}

// FieldValue is the value the source reports for a field of the enclosing item.
func FieldValue(name string, d *refmodel.Decl, src string, chainID uint64, b *sim.Block, tx *sim.Tx, l *sim.Log, tr *sim.Trace, trIdx int) (refmodel.Cell, bool) {
	switch name {
	case "ig_name":
		return d.Name, true
	case "src_name":
		return src, true
	case "chain_id":
		return big64(chainID), true
	case "block_hash":
		return nz(b.Hash), true
	case "block_num":
		return big64(b.Num), true
	case "block_time":
		return big64(b.Time), true
	}
	if tx != nil {
		switch name {
		case "tx_hash":
			return nz(tx.Hash), true
		case "tx_idx":
			return big64(tx.Idx), true
		case "tx_signer":
			return nz(tx.From), true
		case "tx_to":
			return nz(tx.To), true
		case "tx_value":
			return orZero(tx.Value), true
		case "tx_input":
			return nz(tx.Input), true
		case "tx_type":
			return big64(uint64(tx.Type)), true
		case "tx_nonce":
			return big64(tx.Nonce), true
		case "tx_gas_price":
			return orZero(tx.GasPrice), true
		case "tx_max_priority_fee_per_gas":
			if !tx.HasFeeCap() {
				return new(big.Int), true
			}
			return orZero(tx.MaxPrio), true
		case "tx_max_fee_per_gas":
			if !tx.HasFeeCap() {
				return new(big.Int), true
			}
			return orZero(tx.MaxFee), true
		case "tx_status":
			return big64(uint64(tx.Status)), true
		case "tx_gas_used":
			return big64(tx.GasUsed), true
		case "tx_effective_gas_price":
			return orZero(tx.EffGasPrice), true
		case "tx_contract_address":
			return nz(tx.ContractAddr), true
		}
	}
	if l != nil {
		switch name {
		case "log_idx":
			return big64(l.Idx), true
		case "log_addr":
			return nz(l.Addr), true
		}
	}
	if tr != nil {
		switch name {
		case "trace_action_idx":
			return big64(uint64(trIdx)), true
		case "trace_action_call_type":
			return tr.CallType, true
		case "trace_action_from":
			return nz(tr.From), true
		case "trace_action_to":
			return nz(tr.To), true
		case "trace_action_value":
			return orZero(tr.Value), true
		}
	}
	return nil, false
}

// GateOK: topic0 equals the declaration's signature hash and the topic count
// matches its number of indexed inputs.
func GateOK(ev *refmodel.Event, l *sim.Log) bool {
	return len(l.Topics)-1 == ev.NumIndexed() && len(l.Topics) > 0 && bytes.Equal(l.Topics[0], ev.SigHash())
}

// Project derives the rows of declaration d from blocks.
func Project(d *refmodel.Decl, blocks []*sim.Block, src string, chainID uint64, lookup Lookup) []Row {
	var out []Row
	kind := d.Kind()
	agg := d.Agg()
	for _, b := range blocks {
		for ti := range b.Txs {
			tx := &b.Txs[ti]
			switch kind {
			case "tx":
				if r, ok := blockRow(d, agg, src, chainID, b, tx, nil, nil, -1, lookup); ok {
					out = append(out, r)
				}
			case "trace":
				for i := range tx.Traces {
					if r, ok := blockRow(d, agg, src, chainID, b, tx, nil, &tx.Traces[i], i, lookup); ok {
						out = append(out, r)
					}
				}
			case "log":
				for li := range tx.Logs {
					out = append(out, logRows(d, agg, src, chainID, b, tx, &tx.Logs[li], lookup)...)
				}
			}
		}
	}
	return out
}

func blockRow(d *refmodel.Decl, agg, src string, chainID uint64, b *sim.Block, tx *sim.Tx, l *sim.Log, tr *sim.Trace, trIdx int, lookup Lookup) (Row, bool) {
	r := Row{BlockNum: b.Num, TxIdx: tx.Idx, LogIdx: -1, AbiIdx: -1, TraceIdx: trIdx, Cells: map[string]refmodel.Cell{}}
	var verdicts []bool
	for _, bf := range d.Block {
		v, ok := FieldValue(bf.Name, d, src, chainID, b, tx, l, tr, trIdx)
		if !ok {
			v = nil
		}
		r.Cells[bf.Column] = v
		if bf.Filter.Active() {
			if verdict, applies := bf.Filter.Accepts(v, at(lookup, b.Num)); applies {
				verdicts = append(verdicts, verdict)
			}
		}
	}
	return r, refmodel.Fold(agg, verdicts)
}

func logRows(d *refmodel.Decl, agg, src string, chainID uint64, b *sim.Block, tx *sim.Tx, l *sim.Log, lookup Lookup) []Row {
	ev := d.Event
	if !GateOK(ev, l) {
		return nil
	}
	if l.Event == nil || l.Event.Signature() != ev.Signature() {
		panic(fmt.Sprintf("model: log passes the gate of %s but was not generated for that signature", ev.Signature()))
	}
	sel := ev.Selected()
	dataRows := ev.DataRows(l.Vals)
	// topic position of each indexed input
	topicOf := map[*refmodel.Type]int{}
	k := 1
	for _, in := range ev.Inputs {
		if in.Indexed {
			topicOf[in] = k
			k++
		}
	}
	var out []Row
	for i, dr := range dataRows {
		r := Row{BlockNum: b.Num, TxIdx: tx.Idx, LogIdx: int(l.Idx), AbiIdx: i, TraceIdx: -1, Cells: map[string]refmodel.Cell{}}
		var verdicts []bool
		di := 0
		for _, s := range sel {
			var cell refmodel.Cell
			if s.Indexed {
				cell = refmodel.TypedCell(s.Leaf, l.Topics[topicOf[s.Top]])
			} else {
				cell = refmodel.TypedCell(s.Leaf, dr[di])
				di++
			}
			r.Cells[s.Column] = cell
			if f := d.Filters[filterKey(ev, s)]; f.Active() {
				if verdict, applies := f.Accepts(cell, at(lookup, b.Num)); applies {
					verdicts = append(verdicts, verdict)
				}
			}
		}
		for _, bf := range d.Block {
			if bf.Name == "abi_idx" {
				r.Cells[bf.Column] = big64(uint64(i))
				continue
			}
			v, _ := FieldValue(bf.Name, d, src, chainID, b, tx, l, nil, -1)
			r.Cells[bf.Column] = v
			if bf.Filter.Active() {
				if verdict, applies := bf.Filter.Accepts(v, at(lookup, b.Num)); applies {
					verdicts = append(verdicts, verdict)
				}
			}
		}
		if refmodel.Fold(agg, verdicts) {
			out = append(out, r)
		}
	}
	return out
}

// filterKey finds the type node carrying the Column annotation of s.
func filterKey(ev *refmodel.Event, s refmodel.SelectedLeaf) *refmodel.Type {
	var found *refmodel.Type
	var walk func(t *refmodel.Type)
	walk = func(t *refmodel.Type) {
		if t.Column == s.Column {
			found = t
		}
		b, _ := t.Base()
		if b.Kind == refmodel.KTuple {
			for _, f := range b.Fields {
				walk(f)
			}
		}
	}
	for _, in := range ev.Inputs {
		walk(in)
	}
	return found
}

// ---- canonical rendering / comparison --------------------------------------

func CellString(v any) string {
	switch x := v.(type) {
	case nil:
		return "∅"
	case *big.Int:
		return x.String()
	case int64:
		return fmt.Sprint(x)
	case []byte:
		if len(x) == 0 {
			return "∅"
		}
		return "0x" + hex.EncodeToString(x)
	case string:
		return fmt.Sprintf("%q", x)
	case bool:
		return fmt.Sprint(x)
	}
	return fmt.Sprintf("%T(%v)", v, v)
}

// RowString renders the given columns of a row (model or stored) canonically.
func RowString(cols []string, get func(col string) any) string {
	var sb strings.Builder
	for i, c := range cols {
		if i > 0 {
			sb.WriteString(" ")
		}
		sb.WriteString(c)
		sb.WriteString("=")
		sb.WriteString(CellString(get(c)))
	}
	return sb.String()
}

// DeclColumns: the columns a declaration writes, sorted.
func DeclColumns(d *refmodel.Decl) []string {
	set := map[string]bool{}
	if d.Event != nil {
		for _, s := range d.Event.Selected() {
			set[s.Column] = true
		}
	}
	for _, b := range d.Block {
		set[b.Column] = true
	}
	var cols []string
	for c := range set {
		cols = append(cols, c)
	}
	sort.Strings(cols)
	return cols
}

// Diff compares expected rows with stored rows (as multisets over the
// declaration's columns). Returns "" when equal, else a short description.
func Diff(d *refmodel.Decl, want []Row, stored []map[string]any) string {
	cols := DeclColumns(d)
	var ws, gs []string
	for _, r := range want {
		r := r
		ws = append(ws, RowString(cols, func(c string) any { return r.Cells[c] }))
	}
	for _, r := range stored {
		r := r
		gs = append(gs, RowString(cols, func(c string) any { return r[c] }))
	}
	sort.Strings(ws)
	sort.Strings(gs)
	var missing, extra []string
	i, j := 0, 0
	for i < len(ws) || j < len(gs) {
		switch {
		case j >= len(gs) || (i < len(ws) && ws[i] < gs[j]):
			missing = append(missing, ws[i])
			i++
		case i >= len(ws) || gs[j] < ws[i]:
			extra = append(extra, gs[j])
			j++
		default:
			i++
			j++
		}
	}
	if len(missing) == 0 && len(extra) == 0 {
		return ""
	}
	// same number on both sides: show only the differing columns of the first pairs
	if len(missing) == len(extra) && len(missing) > 0 {
		var sb strings.Builder
		fmt.Fprintf(&sb, "expected %d rows, stored %d; %d row(s) differ:", len(ws), len(gs), len(missing))
		for k := 0; k < len(missing) && k < 2; k++ {
			wp, gp := strings.Split(missing[k], " "), strings.Split(extra[k], " ")
			if len(wp) != len(gp) {
				continue
			}
			for x := range wp {
				if wp[x] != gp[x] {
					fmt.Fprintf(&sb, " [want %s, stored %s]", wp[x], gp[x])
				}
			}
			fmt.Fprintf(&sb, " (row: %.160s)", missing[k])
		}
		return sb.String()
	}
	short := func(x []string) []string {
		out := make([]string, len(x))
		for i := range x {
			out[i] = x[i]
			if len(out[i]) > 300 {
				out[i] = out[i][:300] + "…"
			}
		}
		return out
	}
	missing, extra = short(missing), short(extra)
	lim := func(x []string) []string {
		if len(x) > 4 {
			return append(x[:4:4], fmt.Sprintf("… %d more", len(x)-4))
		}
		return x
	}
	return fmt.Sprintf("expected %d rows, stored %d; missing from table: %v; unexpected in table: %v", len(ws), len(gs), lim(missing), lim(extra))
}
