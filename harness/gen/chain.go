package gen

import (
	"math/big"

	"pgregory.net/rapid"

	"verifharness/refmodel"
	"verifharness/sim"
)

type ChainOpts struct {
	MaxTxs    int
	MaxLogs   int
	MaxTraces int
	Pool      *Pool
	Events    []*refmodel.Event // declared events whose logs should occur (matching logs)
	Values    ValueOpts
	// EveryBlockTraced: each block gets at least one transaction with a trace
	// (nodes that serve trace_block report at least one trace per block).
	EveryBlockTraced bool
}

func rndBytes(t *rapid.T, n int, label string) []byte {
	return rapid.SliceOfN(rapid.Byte(), n, n).Draw(t, label)
}

func nonZeroBig(t *rapid.T, label string) *big.Int {
	if rapid.Bool().Draw(t, label+"small") {
		return big.NewInt(int64(rapid.IntRange(0, 6).Draw(t, label)))
	}
	b := rndBytes(t, rapid.IntRange(1, 32).Draw(t, label+"len"), label)
	b[0] |= 1
	return new(big.Int).SetBytes(b)
}

func poolAddr(t *rapid.T, p *Pool, label string) []byte {
	if p != nil && rapid.IntRange(0, 3).Draw(t, label+"pool") != 0 {
		return append([]byte{}, rapid.SampledFrom(p.Addrs).Draw(t, label)...)
	}
	a := rndBytes(t, 20, label)
	a[0] |= 0x80
	return a
}

// decoyLayout: the same event with a different number of indexed inputs.
func decoyLayout(t *rapid.T, e *refmodel.Event, declared []*refmodel.Event) *refmodel.Event {
	c := refmodel.CloneEvent(e, false)
	var flippable []int
	for i, in := range c.Inputs {
		if in.IsLeaf() && in.Kind != refmodel.KBytes && in.Kind != refmodel.KString {
			if in.Indexed || c.NumIndexed() < 3 {
				flippable = append(flippable, i)
			}
		}
	}
	if len(flippable) == 0 {
		return nil
	}
	i := rapid.SampledFrom(flippable).Draw(t, "flip")
	c.Inputs[i].Indexed = !c.Inputs[i].Indexed
	// A log whose layout has the signature and the topic count of a declared
	// event but other indexed positions cannot be told apart from that event by
	// any decoder (ABI limitation): not a decoy.
	for _, d := range declared {
		if d.Signature() == c.Signature() && d.NumIndexed() == c.NumIndexed() {
			for j := range d.Inputs {
				if d.Inputs[j].Indexed != c.Inputs[j].Indexed {
					return nil
				}
			}
		}
	}
	return c
}

func GenLog(t *rapid.T, o ChainOpts) sim.Log {
	kind := rapid.IntRange(0, 9).Draw(t, "logkind")
	mk := func(e *refmodel.Event, k string) sim.Log {
		vals := GenEventValues(t, e, o.Values)
		topics, data := e.LogOf(vals)
		return sim.Log{Addr: poolAddr(t, o.Pool, "logaddr"), Topics: topics, Data: data, Event: e, Vals: vals, Kind: k}
	}
	switch {
	case kind <= 4 && len(o.Events) > 0:
		return mk(rapid.SampledFrom(o.Events).Draw(t, "which"), "match")
	case kind <= 6 && len(o.Events) > 0:
		if d := decoyLayout(t, rapid.SampledFrom(o.Events).Draw(t, "which"), o.Events); d != nil {
			return mk(d, "decoy-layout")
		}
		fallthrough
	case kind <= 8:
		e := GenEvent(t, EventOpts{Types: TypeOpts{MaxDepth: 1, MaxTuple: 2, MaxFixed: 2}, MaxInputs: 3, AllowIndexed: true})
		e.Name = "Other" + e.Name
		return mk(e, "decoy-othersig")
	default:
		return sim.Log{Addr: poolAddr(t, o.Pool, "logaddr"), Data: rndBytes(t, rapid.IntRange(0, 64).Draw(t, "rawlen"), "raw"), Kind: "decoy-notopics"}
	}
}

func GenTrace(t *rapid.T, o ChainOpts) sim.Trace {
	return sim.Trace{From: poolAddr(t, o.Pool, "trfrom"), To: poolAddr(t, o.Pool, "trto"), Value: nonZeroBig(t, "trval"),
		CallType: rapid.SampledFrom([]string{"call", "delegatecall", "staticcall"}).Draw(t, "calltype")}
}

func GenTx(t *rapid.T, o ChainOpts) sim.Tx {
	tx := sim.Tx{
		From: poolAddr(t, o.Pool, "from"), Value: nonZeroBig(t, "value"),
		Nonce: uint64(rapid.IntRange(0, 6).Draw(t, "nonce")), Gas: uint64(rapid.IntRange(21000, 90000).Draw(t, "gas")),
		GasPrice: nonZeroBig(t, "gasprice"), MaxPrio: nonZeroBig(t, "maxprio"), MaxFee: nonZeroBig(t, "maxfee"),
		V: big.NewInt(int64(rapid.IntRange(0, 1).Draw(t, "v"))), R: nonZeroBig(t, "r"), S: nonZeroBig(t, "s"),
		Status: byte(rapid.IntRange(0, 1).Draw(t, "status")), GasUsed: uint64(rapid.IntRange(21000, 90000).Draw(t, "gasused")),
		EffGasPrice: nonZeroBig(t, "effgas"),
	}
	// legacy, access-list, EIP-1559, blob, set-code, and an L2 system type without fee caps
	tx.Type = rapid.SampledFrom([]byte{0, 0, 1, 2, 2, 2, 3, 4, 0x7e}).Draw(t, "txtype")
	if rapid.IntRange(0, 9).Draw(t, "create") == 0 {
		tx.ContractAddr = poolAddr(t, nil, "contract")
	} else {
		tx.To = poolAddr(t, o.Pool, "to")
	}
	if o.Pool != nil && rapid.Bool().Draw(t, "inputpool") {
		tx.Input = append([]byte{}, rapid.SampledFrom(o.Pool.Blobs).Draw(t, "inputblob")...)
		tx.Input = append(tx.Input, rndBytes(t, rapid.IntRange(0, 12).Draw(t, "inputtail"), "inputtailb")...)
	} else {
		tx.Input = rndBytes(t, rapid.IntRange(0, 40).Draw(t, "inputlen"), "input")
	}
	nl := rapid.IntRange(0, o.MaxLogs).Draw(t, "nlogs")
	for i := 0; i < nl; i++ {
		tx.Logs = append(tx.Logs, GenLog(t, o))
	}
	nt := rapid.IntRange(0, o.MaxTraces).Draw(t, "ntraces")
	for i := 0; i < nt; i++ {
		tx.Traces = append(tx.Traces, GenTrace(t, o))
	}
	return tx
}

// GenTxs draws the transactions of one block.
func GenTxs(t *rapid.T, o ChainOpts) []sim.Tx {
	n := rapid.IntRange(0, o.MaxTxs).Draw(t, "ntxs")
	var txs []sim.Tx
	for i := 0; i < n; i++ {
		tx := GenTx(t, o)
		tx.Idx = uint64(i)
		txs = append(txs, tx)
	}
	if o.EveryBlockTraced {
		has := false
		for _, tx := range txs {
			if len(tx.Traces) > 0 {
				has = true
			}
		}
		if !has {
			if len(txs) == 0 {
				tx := GenTx(t, o)
				tx.Idx = 0
				txs = append(txs, tx)
			}
			txs[0].Traces = append(txs[0].Traces, GenTrace(t, o))
		}
	}
	return txs
}
