// Package gen holds the rapid generators shared by the property tests.
package gen

import (
	"fmt"
	"math/big"

	"pgregory.net/rapid"

	"verifharness/refmodel"
)

type TypeOpts struct {
	MaxDepth        int // nesting depth of arrays/tuples
	MaxTuple        int // tuple width
	MaxFixed        int // largest k of T[k]
	AllowBoolArrays bool
	DynBias         bool // prefer dynamic leaves and composite shapes (C10: offsets and lengths everywhere)
}

var DefaultTypeOpts = TypeOpts{MaxDepth: 3, MaxTuple: 4, MaxFixed: 13}

type ctx struct {
	o           TypeOpts
	n           int  // name counter
	underArrTup bool // inside a tuple that is an array element: selected arrays are outside the row rule
	cols        *int
	selProb     int // percent
}

func (c *ctx) name(p string) string {
	c.n++
	return fmt.Sprintf("%s%d", p, c.n)
}

func elementaryBiased(t *rapid.T, dyn bool) *refmodel.Type {
	if dyn && rapid.IntRange(0, 9).Draw(t, "dynleaf") < 4 {
		if rapid.Bool().Draw(t, "str") {
			return &refmodel.Type{Kind: refmodel.KString}
		}
		return &refmodel.Type{Kind: refmodel.KBytes}
	}
	return elementary(t)
}

func elementary(t *rapid.T) *refmodel.Type {
	switch rapid.IntRange(0, 9).Draw(t, "elem") {
	case 0, 1:
		return &refmodel.Type{Kind: refmodel.KUint, Bits: 8 * rapid.IntRange(1, 32).Draw(t, "bits")}
	case 2:
		return &refmodel.Type{Kind: refmodel.KUint, Bits: 256}
	case 3:
		return &refmodel.Type{Kind: refmodel.KInt, Bits: 8 * rapid.IntRange(1, 32).Draw(t, "bits")}
	case 4:
		return &refmodel.Type{Kind: refmodel.KAddress}
	case 5:
		return &refmodel.Type{Kind: refmodel.KBool}
	case 6:
		return &refmodel.Type{Kind: refmodel.KBytesN, N: rapid.IntRange(1, 32).Draw(t, "n")}
	case 7:
		return &refmodel.Type{Kind: refmodel.KBytes}
	case 8:
		return &refmodel.Type{Kind: refmodel.KString}
	default:
		return &refmodel.Type{Kind: refmodel.KUint, Bits: 256}
	}
}

// genType draws a type tree. sel = whether leaves may be selected here.
func (c *ctx) genType(t *rapid.T, depth int, maySelect bool) *refmodel.Type {
	k := 0
	if depth < c.o.MaxDepth {
		k = rapid.IntRange(0, 9).Draw(t, "shape")
		if c.o.DynBias && k <= 4 && rapid.Bool().Draw(t, "composite") {
			k = 5 + k%5
		}
	}
	switch {
	case k <= 4: // elementary leaf
		ty := elementaryBiased(t, c.o.DynBias)
		ty.Name = c.name("f")
		if maySelect && rapid.IntRange(0, 99).Draw(t, "sel") < c.selProb {
			*c.cols++
			ty.Column = fmt.Sprintf("c%d", *c.cols)
		}
		return ty
	case k <= 7: // array (1..2 dimensions) of something
		var elem *refmodel.Type
		saveUnder := c.underArrTup
		// an array of tuples puts its tuple fields "under an array-element tuple"
		elemIsTuple := rapid.IntRange(0, 2).Draw(t, "arrOfTuple") == 0
		// a selected array below an array-element tuple is outside the row rule:
		// generate it unselected there
		sel := maySelect && !c.underArrTup
		if elemIsTuple {
			c.underArrTup = true
			elem = c.genTuple(t, depth+1, sel)
			c.underArrTup = saveUnder
		} else {
			elem = elementaryBiased(t, c.o.DynBias)
		}
		dims := rapid.IntRange(1, 2).Draw(t, "dims")
		cur := elem
		for i := 0; i < dims; i++ {
			ln := -1
			if rapid.Bool().Draw(t, "fixed") {
				ln = rapid.IntRange(1, c.o.MaxFixed).Draw(t, "k")
				if ln > 4 && elem.Kind == refmodel.KTuple {
					ln = 1 + ln%4 // keep encodings small for tuple arrays
				}
			}
			cur = &refmodel.Type{Kind: refmodel.KArray, Len: ln, Elem: cur}
		}
		cur.Name = c.name("a")
		if !elemIsTuple && sel && rapid.IntRange(0, 99).Draw(t, "selarr") < c.selProb+20 {
			*c.cols++
			cur.Column = fmt.Sprintf("c%d", *c.cols)
		}
		return cur
	default:
		return c.genTuple(t, depth+1, maySelect)
	}
}

func (c *ctx) genTuple(t *rapid.T, depth int, maySelect bool) *refmodel.Type {
	n := rapid.IntRange(1, c.o.MaxTuple).Draw(t, "ntuple")
	tu := &refmodel.Type{Kind: refmodel.KTuple, Name: c.name("t")}
	for i := 0; i < n; i++ {
		tu.Fields = append(tu.Fields, c.genType(t, depth, maySelect))
	}
	return tu
}

// EventOpts controls event generation.
type EventOpts struct {
	Types        TypeOpts
	MaxInputs    int
	AllowIndexed bool
	// IndexedComposite: indexed inputs may also be structs, arrays, strings or bytes (hash topics).
	IndexedComposite bool
	SelProb      int  // percent chance that a leaf is selected
	NeedSelected bool // at least one selected non-indexed leaf
}

// GenEvent draws an event declaration in the C09 domain. Indexed inputs are
// static elementary types (their topic carries the value itself).
func GenEvent(t *rapid.T, o EventOpts) *refmodel.Event {
	if o.MaxInputs == 0 {
		o.MaxInputs = 4
	}
	if o.SelProb == 0 {
		o.SelProb = 45
	}
	cols := 0
	c := &ctx{o: o.Types, cols: &cols, selProb: o.SelProb}
	ev := &refmodel.Event{Name: "Ev" + rapid.StringMatching(`[A-Z][a-z]{0,5}`).Draw(t, "evname")}
	n := rapid.IntRange(1, o.MaxInputs).Draw(t, "ninputs")
	nIndexed := 0
	for i := 0; i < n; i++ {
		if o.AllowIndexed && nIndexed < 3 && rapid.IntRange(0, 3).Draw(t, "indexed") == 0 {
			var ty *refmodel.Type
			if o.IndexedComposite && rapid.IntRange(0, 3).Draw(t, "indexedcomposite") == 0 {
				// legal Solidity: an indexed struct, array, string or bytes input (its topic is a
				// hash, nothing can be decoded from it, so nothing below it is selected)
				before := cols
				ty = c.genType(t, 0, true)
				cols = before
				stripColumns(ty)
				ty.Name = c.name("i")
				ty.Indexed = true
				ev.Inputs = append(ev.Inputs, ty)
				nIndexed++
				continue
			}
			for {
				ty = elementary(t)
				if ty.Kind != refmodel.KBytes && ty.Kind != refmodel.KString {
					break
				}
			}
			ty.Name = c.name("i")
			ty.Indexed = true
			if rapid.IntRange(0, 99).Draw(t, "sel") < c.selProb {
				cols++
				ty.Column = fmt.Sprintf("c%d", cols)
			}
			ev.Inputs = append(ev.Inputs, ty)
			nIndexed++
			continue
		}
		ev.Inputs = append(ev.Inputs, c.genType(t, 0, true))
	}
	if o.NeedSelected {
		has := false
		for _, s := range ev.Selected() {
			if !s.Indexed {
				has = true
			}
		}
		if !has {
			ty := &refmodel.Type{Kind: refmodel.KUint, Bits: 256, Name: c.name("f")}
			cols++
			ty.Column = fmt.Sprintf("c%d", cols)
			ev.Inputs = append(ev.Inputs, ty)
		}
	}
	return ev
}

// ---- values ----------------------------------------------------------------

type ValueOpts struct {
	MaxDynLen int   // elements of T[]
	MaxBytes  int   // payload of bytes/string
	Pool      *Pool // when set, about half of the leaf values come from the pool
}

var DefaultValueOpts = ValueOpts{MaxDynLen: 4, MaxBytes: 70}

func intPattern(t *rapid.T, bits int, signed bool) []byte {
	// value as 32-byte word, properly sign/zero extended for its width
	max := new(big.Int).Lsh(big.NewInt(1), uint(bits))
	var x *big.Int
	switch rapid.IntRange(0, 7).Draw(t, "pat") {
	case 0:
		x = big.NewInt(0)
	case 1:
		x = big.NewInt(1)
	case 2:
		x = new(big.Int).Sub(max, big.NewInt(1)) // all ones: max unsigned / -1
	case 3:
		x = new(big.Int).Rsh(max, 1) // sign bit only: min signed
	case 4:
		x = new(big.Int).Sub(new(big.Int).Rsh(max, 1), big.NewInt(1)) // max signed
	case 5: // alternating bits
		x = new(big.Int)
		for i := 0; i < bits; i += 2 {
			x.SetBit(x, i, 1)
		}
	default:
		b := rapid.SliceOfN(rapid.Byte(), bits/8, bits/8).Draw(t, "rnd")
		x = new(big.Int).SetBytes(b)
	}
	w := make([]byte, 32)
	x.FillBytes(w)
	if signed && x.Bit(bits-1) == 1 {
		for i := 0; i < 32-bits/8; i++ {
			w[i] = 0xff
		}
	}
	return w
}

func GenValue(t *rapid.T, ty *refmodel.Type, o ValueOpts) refmodel.Value {
	v := refmodel.Value{T: ty}
	if o.Pool != nil && ty.IsLeaf() && rapid.Bool().Draw(t, "pool") {
		switch ty.Kind {
		case refmodel.KUint:
			v.Word = make([]byte, 32)
			v.Word[31] = byte(rapid.IntRange(0, 6).Draw(t, "small"))
			return v
		case refmodel.KAddress:
			v.Word = make([]byte, 32)
			copy(v.Word[12:], rapid.SampledFrom(o.Pool.Addrs).Draw(t, "pooladdr"))
			return v
		case refmodel.KString:
			v.Data = []byte(rapid.SampledFrom(o.Pool.Strings).Draw(t, "poolstr"))
			return v
		case refmodel.KBytes:
			v.Data = append([]byte{}, rapid.SampledFrom(o.Pool.Blobs).Draw(t, "poolblob")...)
			if rapid.Bool().Draw(t, "tail") {
				v.Data = append(v.Data, rapid.SliceOfN(rapid.Byte(), 0, 8).Draw(t, "blobtail")...)
			}
			return v
		}
	}
	switch ty.Kind {
	case refmodel.KUint:
		v.Word = intPattern(t, ty.Bits, false)
	case refmodel.KInt:
		v.Word = intPattern(t, ty.Bits, true)
	case refmodel.KAddress:
		v.Word = make([]byte, 32)
		copy(v.Word[12:], rapid.SliceOfN(rapid.Byte(), 20, 20).Draw(t, "addr"))
	case refmodel.KBool:
		v.Word = make([]byte, 32)
		if rapid.Bool().Draw(t, "bool") {
			v.Word[31] = 1
		}
	case refmodel.KBytesN:
		v.Word = make([]byte, 32)
		copy(v.Word, rapid.SliceOfN(rapid.Byte(), ty.N, ty.N).Draw(t, "bytesN"))
	case refmodel.KBytes:
		n := rapid.SampledFrom([]int{0, 0, 1, 31, 32, 33, 64, -1}).Draw(t, "blen")
		if n < 0 {
			n = rapid.IntRange(0, o.MaxBytes).Draw(t, "blen2")
		}
		v.Data = rapid.SliceOfN(rapid.Byte(), n, n).Draw(t, "bytes")
	case refmodel.KString:
		v.Data = []byte(rapid.StringMatching(`[ -~]{0,40}`).Draw(t, "str"))
	case refmodel.KArray:
		n := ty.Len
		if n < 0 {
			n = rapid.IntRange(0, o.MaxDynLen).Draw(t, "alen")
		}
		for i := 0; i < n; i++ {
			v.Elems = append(v.Elems, GenValue(t, ty.Elem, o))
		}
	case refmodel.KTuple:
		for _, f := range ty.Fields {
			v.Elems = append(v.Elems, GenValue(t, f, o))
		}
	}
	return v
}

func GenEventValues(t *rapid.T, ev *refmodel.Event, o ValueOpts) []refmodel.Value {
	vals := make([]refmodel.Value, len(ev.Inputs))
	for i, in := range ev.Inputs {
		if in.Indexed && !(in.IsLeaf() && in.Kind != refmodel.KBytes && in.Kind != refmodel.KString) {
			// an indexed struct / array / string / bytes input: the topic holds a hash of the value
			vals[i] = refmodel.Value{T: in, Word: rapid.SliceOfN(rapid.Byte(), 32, 32).Draw(t, "hashtopic")}
			continue
		}
		vals[i] = GenValue(t, in, o)
	}
	return vals
}

// stripColumns removes every selection below t.
func stripColumns(ty *refmodel.Type) {
	ty.Column = ""
	if ty.Elem != nil {
		stripColumns(ty.Elem)
	}
	for _, f := range ty.Fields {
		stripColumns(f)
	}
}
