package gen

import (
	"fmt"
	"math/big"

	"pgregory.net/rapid"

	"verifharness/refmodel"
)

// Pool holds the small value sets shared by chain contents and filter
// arguments so that filters have mixed outcomes.
type Pool struct {
	Addrs   [][]byte
	Strings []string
	Blobs   [][]byte
}

func NewPool() *Pool {
	p := &Pool{Strings: []string{"alpha", "0xAbC", "gamma", "", "beta"}} // "0xAbC": text that looks like hex (a checksummed address carried as a string)
	for i := 1; i <= 4; i++ {
		a := make([]byte, 20)
		for j := range a {
			a[j] = byte(0x10*i + j)
		}
		p.Addrs = append(p.Addrs, a)
	}
	p.Blobs = [][]byte{{0xde, 0xad, 0xbe, 0xef}, {0xa9, 0x05, 0x9c, 0xbb, 0x01}, {0x01}}
	return p
}

func ColTypeFor(leaf *refmodel.Type) string {
	switch leaf.Kind {
	case refmodel.KUint, refmodel.KInt:
		return "numeric"
	case refmodel.KBool:
		return "bool"
	case refmodel.KString:
		return "text"
	}
	return "bytea"
}

// FieldColType is the documented column type of a block/tx/receipt/log/trace field.
var FieldColType = map[string]string{
	"ig_name": "text", "src_name": "text", "chain_id": "numeric",
	"block_hash": "bytea", "block_num": "numeric", "block_time": "numeric",
	"tx_hash": "bytea", "tx_idx": "int", "tx_signer": "bytea", "tx_to": "bytea", "tx_value": "numeric", "tx_input": "bytea",
	"tx_type": "int", "tx_nonce": "numeric", "tx_gas_price": "numeric", "tx_max_priority_fee_per_gas": "numeric", "tx_max_fee_per_gas": "numeric",
	"tx_status": "int", "tx_gas_used": "numeric", "tx_effective_gas_price": "numeric", "tx_contract_address": "bytea",
	"log_idx": "int", "log_addr": "bytea", "abi_idx": "int2",
	"trace_action_idx": "int2", "trace_action_call_type": "text", "trace_action_from": "bytea", "trace_action_to": "bytea", "trace_action_value": "numeric",
}

var (
	HeaderFields  = []string{"block_hash", "block_num", "block_time"}
	BlockTxFields = []string{"tx_hash", "tx_idx", "tx_signer", "tx_to", "tx_value", "tx_input", "tx_type", "tx_nonce", "tx_max_priority_fee_per_gas", "tx_max_fee_per_gas"}
	ReceiptFields = []string{"tx_status", "tx_gas_used", "tx_contract_address"}
	LogFields     = []string{"log_idx", "log_addr"}
	TraceFields   = []string{"trace_action_call_type", "trace_action_from", "trace_action_to", "trace_action_value"}
	// fields the planner tables do not list (see C14); kept out of the shared state machine's domain
	UnlistedFields = []string{"tx_gas_price", "tx_effective_gas_price", "trace_action_idx", "chain_id"}
)

type DeclOpts struct {
	Kinds        []string // subset of log, tx, trace
	Event        EventOpts
	NeedParent   bool // data plan must carry parent hashes (headers or blocks)
	AllowFilters bool
	AllowNotify  bool
	Pool         *Pool
	Name         string
	Table        string
	FixedEvent   *refmodel.Event // reuse this event (deep-copied with fresh column choices) when non-nil
}

func subset(t *rapid.T, label string, from []string, pct int) []string {
	var res []string
	for _, f := range from {
		if rapid.IntRange(0, 99).Draw(t, label+":"+f) < pct {
			res = append(res, f)
		}
	}
	return res
}

// GenDecl draws one integration declaration in the supported domain.
func GenDecl(t *rapid.T, o DeclOpts) *refmodel.Decl {
	if len(o.Kinds) == 0 {
		o.Kinds = []string{"log", "tx", "trace"}
	}
	kind := rapid.SampledFrom(o.Kinds).Draw(t, "kind")
	d := &refmodel.Decl{Name: o.Name, Enabled: true, Table: o.Table, Filters: map[*refmodel.Type]*refmodel.Filter{}}
	var fields []string
	switch kind {
	case "log":
		ev := o.FixedEvent
		if ev == nil {
			eo := o.Event
			if eo.Types.MaxDepth == 0 {
				eo.Types = TypeOpts{MaxDepth: 2, MaxTuple: 3, MaxFixed: 3}
				eo.MaxInputs = 4
			}
			eo.AllowIndexed = true
			ev = GenEvent(t, eo)
			if len(ev.Selected()) == 0 {
				ty := &refmodel.Type{Kind: refmodel.KUint, Bits: 256, Name: "sel", Column: "c90"}
				ev.Inputs = append(ev.Inputs, ty)
			}
		}
		d.Event = ev
		for _, s := range ev.Selected() {
			d.Columns = append(d.Columns, refmodel.Column{Name: s.Column, Type: ColTypeFor(s.Leaf)})
		}
		fields = append(fields, subset(t, "f", HeaderFields, 40)...)
		fields = append(fields, subset(t, "f", []string{"tx_hash", "log_addr"}, 50)...)
		switch rapid.IntRange(0, 3).Draw(t, "logplan") {
		case 0: // logs (+headers)
		case 1: // + full blocks
			fields = append(fields, subset(t, "f", []string{"tx_signer", "tx_to", "tx_value", "tx_input", "tx_nonce"}, 40)...)
		case 2: // receipts
			fields = append(fields, subset(t, "f", ReceiptFields, 60)...)
		default:
		}
	case "tx":
		fields = append(fields, subset(t, "f", HeaderFields, 40)...)
		fields = append(fields, subset(t, "f", BlockTxFields, 40)...)
		if rapid.Bool().Draw(t, "receipts") {
			fields = append(fields, subset(t, "f", ReceiptFields, 60)...)
		}
		if len(fields) == 0 {
			fields = []string{"tx_hash"}
		}
	case "trace":
		fields = append(fields, subset(t, "f", TraceFields, 60)...)
		if len(fields) == 0 {
			fields = []string{"trace_action_from"}
		}
		fields = append(fields, subset(t, "f", HeaderFields, 40)...)
		fields = append(fields, subset(t, "f", []string{"tx_hash", "tx_signer", "tx_to", "tx_value", "tx_input"}, 30)...)
	}
	if o.NeedParent {
		has := false
		for _, f := range fields {
			if f == "block_time" {
				has = true
			}
		}
		if !has && kind != "trace" {
			fields = append(fields, "block_time")
		}
	}
	// shuffle column order
	fields = rapid.Permutation(fields).Draw(t, "order")
	for _, f := range fields {
		d.Block = append(d.Block, refmodel.BlockField{Name: f, Column: f})
		d.Columns = append(d.Columns, refmodel.Column{Name: f, Type: FieldColType[f]})
	}
	// the user may spell out identity columns in the table (e.g. to pick their type)
	// without listing the matching block field: shovel adds the field itself
	if rapid.IntRange(0, 3).Draw(t, "declareidentity") == 0 {
		for _, c := range []refmodel.Column{{Name: "block_num", Type: "numeric"}, {Name: "ig_name", Type: "text"}, {Name: "src_name", Type: "text"}, {Name: "tx_idx", Type: "int"}} {
			has := false
			for _, x := range d.Columns {
				if x.Name == c.Name {
					has = true
				}
			}
			if !has && rapid.Bool().Draw(t, "idcol:"+c.Name) {
				d.Columns = append(d.Columns, c)
			}
		}
	}
	d.Columns = rapid.Permutation(d.Columns).Draw(t, "colorder")
	if o.AllowFilters && o.Pool != nil {
		genFilters(t, d, o.Pool)
	}
	if o.AllowNotify && rapid.IntRange(0, 3).Draw(t, "notify") == 0 && len(d.Columns) > 0 {
		n := rapid.IntRange(1, min(2, len(d.Columns))).Draw(t, "nnotify")
		for i := 0; i < n; i++ {
			d.Notify = append(d.Notify, d.Columns[i].Name)
		}
	}
	return d
}

func hexArg(b []byte) string { return fmt.Sprintf("0x%x", b) }

// GenFilterFor draws a filter suited to the value kind of a cell.
func GenFilterFor(t *rapid.T, kind string, p *Pool) *refmodel.Filter {
	switch kind {
	case "addr":
		op := rapid.SampledFrom([]string{"contains", "!contains", "eq", "ne"}).Draw(t, "op")
		n := rapid.IntRange(1, 3).Draw(t, "nargs")
		f := &refmodel.Filter{Op: op}
		for i := 0; i < n; i++ {
			a := rapid.SampledFrom(p.Addrs).Draw(t, "arg")
			if rapid.IntRange(0, 3).Draw(t, "fragment") == 0 {
				// a fragment of an address next to whole ones (contains matches substrings)
				lo := rapid.IntRange(0, 12).Draw(t, "fraglo")
				a = a[lo : lo+rapid.IntRange(2, 8).Draw(t, "fraglen")]
			}
			f.Args = append(f.Args, hexArg(a))
		}
		return f
	case "bytes":
		op := rapid.SampledFrom([]string{"contains", "!contains", "eq", "ne"}).Draw(t, "op")
		n := rapid.IntRange(1, 2).Draw(t, "nargs")
		f := &refmodel.Filter{Op: op}
		for i := 0; i < n; i++ {
			f.Args = append(f.Args, hexArg(rapid.SampledFrom(p.Blobs).Draw(t, "arg")))
		}
		return f
	case "string":
		op := rapid.SampledFrom([]string{"contains", "!contains", "eq", "ne"}).Draw(t, "op")
		f := &refmodel.Filter{Op: op}
		n := 1
		if op == "contains" || op == "!contains" {
			n = rapid.IntRange(1, 3).Draw(t, "nargs")
		}
		for i := 0; i < n; i++ {
			f.Args = append(f.Args, rapid.SampledFrom(p.Strings[:3]).Draw(t, "arg"))
		}
		return f
	case "uint":
		op := rapid.SampledFrom([]string{"eq", "ne", "gt", "lt"}).Draw(t, "op")
		return &refmodel.Filter{Op: op, Args: []string{fmt.Sprint(rapid.IntRange(0, 6).Draw(t, "arg"))}}
	}
	return nil
}

func kindOfLeaf(l *refmodel.Type) string {
	switch l.Kind {
	case refmodel.KAddress:
		return "addr"
	case refmodel.KBytes, refmodel.KBytesN:
		return "bytes"
	case refmodel.KString:
		return "string"
	case refmodel.KUint:
		return "uint"
	}
	return ""
}

// FieldFilterKind: value kind of block-level fields that filters understand.
var FieldFilterKind = map[string]string{
	"log_addr": "addr", "tx_signer": "addr", "tx_to": "addr", "trace_action_from": "addr", "trace_action_to": "addr",
	"tx_input":  "bytes",
	"block_num": "uintBlock", "tx_idx": "uint", "log_idx": "uint", "tx_nonce": "uint", "tx_value": "uint", "trace_action_value": "uint",
	"trace_action_call_type": "calltype",
}

// GenFilters adds 0-3 filters on selected inputs / block fields of d.
func GenFilters(t *rapid.T, d *refmodel.Decl, p *Pool) { genFilters(t, d, p) }

func genFilters(t *rapid.T, d *refmodel.Decl, p *Pool) {
	n := rapid.IntRange(0, 3).Draw(t, "nfilters")
	if n == 0 {
		return
	}
	type cand struct {
		input *refmodel.Type
		bf    int
		kind  string
	}
	var cands []cand
	if d.Event != nil {
		var walk func(top *refmodel.Type, tt *refmodel.Type)
		walk = func(top, tt *refmodel.Type) {
			b, _ := tt.Base()
			if b.Kind == refmodel.KTuple {
				for _, f := range b.Fields {
					walk(top, f)
				}
				return
			}
			if tt.Column != "" && kindOfLeaf(b) != "" {
				cands = append(cands, cand{input: tt, bf: -1, kind: kindOfLeaf(b)})
			}
		}
		for _, in := range d.Event.Inputs {
			walk(in, in)
		}
	}
	for i, bf := range d.Block {
		if k, ok := FieldFilterKind[bf.Name]; ok && k != "uintBlock" {
			cands = append(cands, cand{bf: i, kind: k})
		}
	}
	if len(cands) == 0 {
		return
	}
	for i := 0; i < n; i++ {
		c := rapid.SampledFrom(cands).Draw(t, "fcand")
		kind := c.kind
		var f *refmodel.Filter
		if kind == "calltype" {
			f = &refmodel.Filter{Op: rapid.SampledFrom([]string{"contains", "!contains", "eq", "ne"}).Draw(t, "op"), Args: []string{rapid.SampledFrom([]string{"call", "delegatecall", "staticcall"}).Draw(t, "arg")}}
		} else {
			f = GenFilterFor(t, kind, p)
		}
		if c.bf >= 0 {
			d.Block[c.bf].Filter = f
		} else {
			d.Filters[c.input] = f
		}
	}
	d.FilterAgg = rapid.SampledFrom([]string{"", "and", "or"}).Draw(t, "agg")
}

// PoolValueOpts biases generated event values towards the pool.
func smallBig(t *rapid.T) *big.Int { return big.NewInt(int64(rapid.IntRange(0, 6).Draw(t, "small"))) }
