HOOK_COMMITS = ["639114e verif hook: Manager.VerifTasks (build tag verif)", "543776b verif hook: Manager.VerifIdle (build tag verif)", "e8a575c verif hook: VerifLoadTasks, Task.VerifInfo (build tag verif)"]
NOT_BUILT_REASON = {}
META = {
 "C17": dict(
  design_ref="DESIGN.md §5 C17",
  technique="exhaustive token enumeration + exhaustive single-byte substitution/insertion (256 values x every position) + rapid differential vs strconv/encoding/hex/math/big + native go fuzz (thorough); rapid model-based aliasing unit over several reused destinations and one reused message buffer",
  text="Exhaustive over all 299 593 JSON tokens of length 0..6 on a hostile alphabet for no-panic/accept/reject, and generated search (tens of thousands to millions of cases) for value exactness of quantities in every spelling, byte strings up to 8 KiB decoded into reused destinations, and big-endian round trips for every pad width; absence beyond the explored inputs is not established.",
  note="Reference codecs are Go's strconv, encoding/hex and math/big. 'Valid quantity' = 0x + 1..16 hex digits (longer spellings that still fit in 64 bits must be exact or rejected).",
 ),
 "C09": dict(
  design_ref="DESIGN.md §5 C09",
  technique="rapid generated ABI type trees + independent encoder -> decoder, row-rule oracle; go native fuzz via rapid.MakeFuzz (thorough)",
  text="Generated search over declarations x values with an independent ABI encoder and row rule as oracle: tens of thousands (quick) to millions (thorough) of declaration/value cases, each pushing 1..5 logs through one decoder instance. Shapes are covered by construction (labels report the distribution); sizes are bounded; no exhaustiveness claim.",
  note="Trusted: harness/refmodel/abi.go (encoder, canonical type strings, row rule). Reaches the decoder through dig.NewResult(Event.ABIType()).Scan/Bytes, the same objects Integration.Insert uses.",
 ),
 "C10": dict(
  design_ref="DESIGN.md §5 C10",
  technique="rapid structured mutation of valid encodings at known offset/length words + per-declaration exhaustive truncation, zero-fill of every length and zeroed tails (also exhaustively over a fixed declaration table); sub-slice/row-bound/allocation oracle; go native fuzz (thorough)",
  text="For generated declarations every prefix and every boundary word at every offset/length position of a valid encoding is tried (AllTruncations), plus a large random mutation search; the oracle checks panic-freedom, sub-range results, row and allocation bounds, and that the decoder instance is not corrupted.",
  note="Input slices have cap==len so an over-read within spare capacity cannot hide. Promptness is judged by row/allocation bounds, not by time.",
 ),
 "C13": dict(
  design_ref="DESIGN.md §5 C13",
  technique="rapid differential vs canonical-signature builder + stand-alone Keccak-256; decoy-log gate oracle through Integration.Insert; several integrations built before use (held hashes, second build from one declaration); round trip of stored integrations through the fake Postgres; rapid pipeline unit (configuration JSON -> validation -> request plan -> task) with table == reference projection",
  text="Generated search: the signature string and hash of every generated declaration are compared with an independent construction, Keccak is cross-checked against a from-scratch implementation and mainnet vectors, and blocks of matching/decoy logs must yield rows exactly for the logs passing the hash+topic-count gate.",
  note="Trusted: refmodel.Keccak256 (validated against five mainnet topics and the empty-string digest), refmodel canonical signature.",
 ),
 "C01": dict(
  design_ref="DESIGN.md §4, §5 C01",
  technique="rapid model-based state machine: real Task.Converge (tasks built by shovel's own loader from file or stored integrations) against simulated JSON-RPC node + fake Postgres (wire protocol), oracle = independent projection model and per-step commit-record invariants",
  text="Generated search over configurations x chain contents x interleavings of growth and indexing steps (thousands of histories quick, ~10^5 thorough), with the complete table compared against an independent projection after every successful step and at quiescence. Exploration only: bounded chain lengths (tens of blocks) and sizes; no absence claim.",
  note="Trusted: harness/fakepg (Postgres semantics of ~20 statement shapes), harness/sim (JSON-RPC node), harness/model + refmodel (projection). pgx and net/http are in the loop but only as transport.",
 ),
 "C03": dict(
  design_ref="DESIGN.md §4, §5 C03",
  technique="rapid model-based state machine with generated reorgs (between steps and between the RPC calls of a step), quiescence equality against the projection of the canonical chain",
  text="Generated search over reorg histories (depth, replacement length, repeated/nested, mid-step at chosen RPC calls, shared client caches, batch sizes > 1) with the final table and every retained position compared with the canonical chain, plus a frame invariant on commit records for blocks below the fork. Bounded convergence: running out of settle budget while still progressing is inconclusive, never a violation.",
  note="Trusted: fakepg, sim node, projection model. Liveness ('once the source settles') is checked as convergence within a step budget proportional to chain length.",
 ),
 "C06": dict(
  design_ref="DESIGN.md §4, §5 C06",
  technique="rapid model-based state machine over (start, stop, head, batch) with restarts, blocks arriving between two requests of a step and failing COMMITs; range/ completion invariants on commit records + projection equality",
  text="Generated search over start/stop placements relative to a growing head, batch sizes straddling the stop, and restarts; every commit is checked against the configured range, completion is checked against the cursor model, and the table against the projection of the range.",
  note="Trusted: fakepg, sim node, projection model. 'Head at first contact' is read from the simulated node's request log.",
 ),
 "C05": dict(
  design_ref="DESIGN.md §4, §5 C05",
  technique="rapid scheduler-driven state machine over generated filter_ref dependency graphs; cursor-ordering invariant at every commit + sandwich oracle for rows (guaranteed vs possible lookups)",
  text="Generated search over dependency graphs and relative task speeds; the ordering invariant is evaluated on the committed state after every step of a dependant, and the dependant's final rows are bounded from below and above by independent projections.",
  note="Trusted: fakepg (incl. the dependency CTE semantics: distinct on / ANY / order by), sim node, projection model.",
 ),
 "C04": dict(
  design_ref="DESIGN.md §4, §5 C04",
  technique="rapid model-based state machine with shared tables/sources/clients (frame condition on fakepg commit records, anchor check, per-pair projection equality) + rapid concurrent unit: one goroutine per pair against a growing chain, final-state oracle",
  text="Generated search over sharing configurations and interleavings (steps, reorg deletions, restarts); every commit is attributed to the stepping pair and must touch only that pair's stamps, and each pair's rows must equal its own projection at quiescence.",
  note="Trusted: fakepg commit records (rows added/removed per commit with their stamps), sim node, projection model.",
 ),
 "C02": dict(
  design_ref="DESIGN.md §5 C02",
  technique="exhaustive single-fault enumeration over recorded I/O operations of fixed step scenarios + rapid multi-fault histories; invariant evaluated inside the fake Postgres commit hook",
  text="Every I/O operation of ten representative step scenarios is failed once in each of five ways (about 750 fault points, complete for those scenarios), and random multi-fault histories add breadth; the atomicity invariant is evaluated in every committed state, in the state left by the failure, after process restart, and the retry must converge to the fault-free result.",
  note="Trusted: fakepg transaction semantics (overlay per connection, atomic commit under one mutex, rollback on disconnect), sim node fault injection, projection model.",
 ),
 "C14": dict(
  design_ref="DESIGN.md §5 C14",
  technique="exhaustive enumeration of all single fields and all field pairs (627 sets) + rapid larger sets, each through the full path against a chain of distinct non-zero values",
  text="All singles and pairs are enumerated completely in both declaration contexts; larger sets are sampled by provenance class. A selected field that is not fetched shows up as a zero/empty column against distinct non-zero source values.",
  note="Trusted: sim node JSON rendering, fakepg value decoding (pgx codecs), model.FieldValue provenance.",
 ),
 "C11": dict(
  design_ref="DESIGN.md §5 C11",
  technique="rapid generated declarations x chains through the full wire path, cell-by-cell comparison with an independent field/type model; plus high-volume row-builder differential with a capturing connection",
  text="Generated search over event layouts, field subsets, column orders and integer sign patterns; every stored cell is compared with the model value of the field it names. Exploration with bounded sizes; no absence claim.",
  note="Trusted: refmodel.TypedCell (documented type mapping), model.FieldValue, sim JSON rendering, pgx codecs for transport.",
 ),
 "C12": dict(
  design_ref="DESIGN.md §5 C12",
  technique="rapid generated filters vs an independent reference predicate (row builder with capturing connection); metamorphic full-path run against a filtering and a non-filtering node",
  text="Generated search over operators, value kinds, boundary values and aggregations with an independent predicate as oracle, and a metamorphic relation for the server-side pre-filter (results must not depend on whether the node applies address/topics).",
  note="Trusted: refmodel.Filter.Accepts/Fold, model.Project, sim.LogMatches (eth_getLogs semantics).",
 ),
 "C16": dict(
  design_ref="DESIGN.md §5 C16",
  technique="rapid generated integration sets -> ValidateFix/Migrate on the fake Postgres -> real COPY of generated blocks twice (first must succeed, second must collide); no-NULL-in-generated-key invariant incl. a log with the event's topics and no data; validation negatives by single-reference removal",
  text="Generated search over integration sets and chains: DDL and migrations are executed by a Postgres stand-in that enforces column existence and unique indexes, real emitted rows are copied in, and a replay of the same blocks must hit the generated unique key.",
  note="Trusted: fakepg DDL semantics (create table/index if not exists, add column if not exists, information_schema diff, unique enforcement with NULLs distinct).",
 ),
 "C07": dict(
  design_ref="DESIGN.md §5 C07",
  technique="exhaustive single-corruption enumeration (operator incl. lagging replica x request x position) over every data plan + rapid combined corruptions; oracle judged against the responses as served; native fuzz over operator/position bytes (thorough)",
  text="All single corruptions from the property's list are enumerated for small ranges on all eleven data plans, combinations are sampled; the oracle decides from the served (post-corruption) responses whether an error is mandatory and otherwise checks numbering, linkage and the exact attachment relation.",
  note="Trusted: the harness's own parsing of the served JSON, sim node rendering. Client built with the 'nocache' URL switch so every call reaches the script.",
 ),
 "C08": dict(
  design_ref="DESIGN.md §5 C08",
  technique="rapid differential: caching client vs uncached client on the same scripted node (sequential state machine + concurrent mixes), request-count bounds (incl. readers that arrive while the download is held inside the node), scripted head announcements",
  text="Generated search over request sequences, concurrent mixes, max-read settings, injected failures and head announcement orders; transparency is decided by comparison with an uncached client, reuse bounds and no-cached-errors by the node's request counts, head validity by membership in the announced set.",
  note="Trusted: sim node (request log and counts), the 'nocache' switch of jrpc2.New for the reference client.",
 ),
 "C19": dict(
  design_ref="DESIGN.md §5 C19",
  technique="exhaustive enumeration of the authentication decision table in process (httptest) + route probe of the real binary against the fake Postgres",
  text="The full product of switches, addresses, cookie states, methods and password guesses (about 6 300 requests) is enumerated against the decision table derived from the statement; the real binary is probed for the wrapping of the five protected routes.",
  note="Trusted: net/http/httptest, the decision table in the test. The generated password is read from the handler's log output.",
 ),
 "C15": dict(
  design_ref="DESIGN.md §5 C15",
  technique="per-configuration exhaustive replacement of every string position by marker-carrying hostile strings; oracle on every SQL text the fake Postgres receives (marker search + statement-shape whitelist) and on the validation verdict; stored dashboard submissions are loaded back and run; rapid differential of the identifier check against its documented rule",
  text="For each generated configuration every string position (about 90) is attacked in turn with hostile strings and the complete life cycle is run when validation accepts; the fake server records every SQL text, so a spliced value is observed directly. Dashboard submissions are attacked the same way.",
  note="Trusted: fakepg's statement whitelist (anything else is 'unrecognised SQL') and raw SQL text log.",
 ),
 "C20": dict(
  design_ref="DESIGN.md §5 C20",
  technique="rapid generated file/database configuration mixes and restart timings against the real Manager in process; task-set model + overlap analysis of the fake Postgres event log + per-source node traffic (incl. a stored source edited between two generations)",
  text="Generated search over configuration mixes and restart timings (gate-controlled steps, concurrent restarts); the loaded task set is compared with an independent model through an observation hook, and runner exclusivity is decided from the transaction events seen by the fake Postgres.",
  note="Hook: shovel/verif_hooks.go (build tag verif) exposes the loaded task list. Liveness clauses are checked with bounded waits.",
 ),
 "C18": dict(
  design_ref="DESIGN.md §5 C18",
  technique="rapid generated concurrent workloads (real goroutines, shared client, poller, reorgs) under the Go race detector; reports classified by the packages of the two conflicting stacks",
  text="Generated search over concurrent workloads with the race detector as oracle. Exploration: it finds races on executed paths only and perturbs, rather than controls, the schedule.",
  note="Trusted: the Go race detector; the harness (fakepg, sim node) is itself run under -race and a race inside it makes the run inconclusive.",
 ),
}
