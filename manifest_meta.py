HOOK_COMMITS = []
NOT_BUILT_REASON = {}
META = {
 "C17": dict(
  design_ref="DESIGN.md §5 C17",
  technique="exhaustive token enumeration + rapid differential vs strconv/encoding/hex/math/big + native go fuzz (thorough)",
  text="Exhaustive over all 299 593 JSON tokens of length 0..6 on a hostile alphabet for no-panic/accept/reject, and generated search (tens of thousands to millions of cases) for value exactness of quantities in every spelling, byte strings up to 8 KiB decoded into reused destinations, and big-endian round trips for every pad width; absence beyond the explored inputs is not established.",
  note="Reference codecs are Go's strconv, encoding/hex and math/big. 'Valid quantity' = 0x + 1..16 hex digits (longer spellings that still fit in 64 bits must be exact or rejected).",
 ),
}
